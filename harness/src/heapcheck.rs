// C16: replay yarel's allocation / sweep event stream against a shadow account kept by the
// runner and check the pacing rule exactly as the property words it.
use std::fmt::Write;

use yarel::memory::verif::HeapEvent;

const INIT_BUDGET: usize = 65536;
const GROWTH: usize = 2;

pub fn check(events: &[HeapEvent]) -> String {
    check_with(events, true)
}

pub fn check_with(events: &[HeapEvent], pacing: bool) -> String {
    let mut problems: Vec<String> = Vec::new();
    let mut shadow: Option<usize> = None; // bytes on the heap by our own sums
    let mut shadow_before_sweep: Option<usize> = None;
    let mut limit = INIT_BUDGET; // L: initial budget, then 2*S
    let mut limit_before_sweep = limit;
    let mut allocs = 0u64;
    let mut sweeps = 0u64;
    let mut collected_allocs = 0u64;
    let mut max_heap = 0usize;
    let mut max_over_limit: i64 = i64::MIN;
    let mut total_allocated = 0u64;
    let mut total_freed = 0u64;
    let mut pending_sweep = false;
    let push = |problems: &mut Vec<String>, s: String| {
        if problems.len() < 12 {
            problems.push(s);
        }
    };
    for (i, event) in events.iter().enumerate() {
        match *event {
            HeapEvent::Sweep { freed_shadow, survivors_shadow, freed_reported, bytes_after, threshold_after } => {
                sweeps += 1;
                let before = shadow.unwrap_or(freed_shadow + survivors_shadow);
                shadow_before_sweep = Some(before);
                limit_before_sweep = limit;
                pending_sweep = true;
                if freed_shadow + survivors_shadow != before {
                    push(&mut problems, format!("HeapSum: event {}: objects on the heap sum to {} bytes but the account says {}", i, freed_shadow + survivors_shadow, before));
                }
                if freed_reported != freed_shadow {
                    push(&mut problems, format!("SweepAccounting: event {}: sweep reported {} bytes freed, objects swept sum to {}", i, freed_reported, freed_shadow));
                }
                if bytes_after != survivors_shadow {
                    push(&mut problems, format!("Conservation: event {}: bytes_allocated after collection is {}, survivors sum to {}", i, bytes_after, survivors_shadow));
                }
                if pacing && threshold_after != GROWTH * survivors_shadow {
                    push(&mut problems, format!("ThresholdRule: event {}: threshold after collection is {}, expected {} (2 x {} surviving bytes)", i, threshold_after, GROWTH * survivors_shadow, survivors_shadow));
                }
                total_freed += freed_shadow as u64;
                shadow = Some(survivors_shadow);
                limit = GROWTH * survivors_shadow;
            }
            HeapEvent::Alloc { size, bytes_before, threshold_before: _, collected } => {
                allocs += 1;
                let (expect_before, limit_in_force) = if collected && pending_sweep {
                    (shadow_before_sweep, limit_before_sweep)
                } else {
                    (shadow, limit)
                };
                if let Some(expect) = expect_before {
                    if expect != bytes_before {
                        push(&mut problems, format!("Conservation: event {}: bytes_allocated is {} at an allocation, account says {}", i, bytes_before, expect));
                    }
                }
                if collected {
                    collected_allocs += 1;
                } else if pacing {
                    let over = bytes_before as i64 - limit_in_force as i64;
                    if over > max_over_limit {
                        max_over_limit = over;
                    }
                    if bytes_before > limit_in_force {
                        push(&mut problems, format!("PacingMissed: event {}: allocation started with {} bytes on the heap, limit {} ({}), and no collection ran", i, bytes_before, limit_in_force, if sweeps == 0 { "initial budget" } else { "2 x survivors of the previous collection" }));
                    }
                }
                pending_sweep = false;
                let now = shadow.unwrap_or(bytes_before) + size;
                shadow = Some(now);
                total_allocated += size as u64;
                if now > max_heap {
                    max_heap = now;
                }
            }
        }
    }
    let mut out = String::new();
    let _ = write!(
        out,
        "{{\"allocs\":{},\"sweeps\":{},\"collected_allocs\":{},\"max_heap\":{},\"max_over_limit\":{},\"total_allocated\":{},\"total_freed\":{},\"final_bytes\":{},\"problems\":",
        allocs, sweeps, collected_allocs, max_heap,
        if max_over_limit == i64::MIN { 0 } else { max_over_limit },
        total_allocated, total_freed, shadow.unwrap_or(0)
    );
    crate::json_str_list(&mut out, &problems);
    out.push('}');
    out
}
