// yv: the runner. Reads a batch of cases, runs each on the real yarel library and prints one
// JSON line per case with everything the Python drivers need to decide a property: printed
// lines, outcome, error kind and messages, panic payload and location, monitor events, heap
// statistics.  Only the public API of yarel is used, plus (feature `hooks`) the verif hooks.
//
// Input format (bytes; one command per line, blobs are length-prefixed):
//   CASE <id>
//   SET <key> <value>
//   MOD <path> <nbytes>\n<bytes>\n
//   GLOBAL <name> <f64 bits as hex>
//   SNIP <nbytes>\n<bytes>\n          interpret a snippet on the case's Vm
//   COMPILE <nbytes>\n<bytes>\n       compile only
//   RESET                             Vm::reset()
//   STATS                             force a collection and record heap statistics
//   INTERN <nbytes>\n<bytes>\n        host-side new_gc_obj_string twice + compare with global `probe`
//   STRSTORE <seed> <ops> <mode>      isolated intern-table history (feature hooks)
//   PREFIXES <nbytes>\n<bytes>\n      compile every prefix (at char boundaries) of the text
//   END

use std::cell::RefCell;
use std::collections::HashMap;
use std::fmt::Write as FmtWrite;
use std::io::{self, Read, Write};
use std::panic::{self, AssertUnwindSafe};

use yarel::compiler;
use yarel::error::{Error, ErrorKind};
use yarel::value::Value;
use yarel::vm::{self, Vm};

mod chunkcheck;
#[cfg(feature = "hooks")]
mod heapcheck;
#[cfg(feature = "hooks")]
mod strstore;

thread_local! {
    static OUTPUT: RefCell<Vec<String>> = RefCell::new(Vec::new());
    static MODULES: RefCell<HashMap<String, String>> = RefCell::new(HashMap::new());
    static LOADS: RefCell<Vec<String>> = RefCell::new(Vec::new());
    static PANIC_INFO: RefCell<Option<(String, String)>> = RefCell::new(None);
}

// ------------------------------------------------------------------------- JSON writing

pub fn json_str(out: &mut String, s: &str) {
    out.push('"');
    for c in s.chars() {
        match c {
            '"' => out.push_str("\\\""),
            '\\' => out.push_str("\\\\"),
            '\n' => out.push_str("\\n"),
            '\r' => out.push_str("\\r"),
            '\t' => out.push_str("\\t"),
            c if (c as u32) < 0x20 => {
                let _ = write!(out, "\\u{:04x}", c as u32);
            }
            c => out.push(c),
        }
    }
    out.push('"');
}

pub fn json_str_list(out: &mut String, items: &[String]) {
    out.push('[');
    for (i, item) in items.iter().enumerate() {
        if i > 0 {
            out.push(',');
        }
        json_str(out, item);
    }
    out.push(']');
}

// ------------------------------------------------------------------------- input

#[derive(Debug)]
enum Step {
    Snip(String),
    Compile(String),
    Reset,
    Stats,
    Intern(String),
    StrStore(u64, u64, String),
    Prefixes(String),
    /// host API: compile a source once and keep the rooted function
    Keep(String),
    /// host API: execute the i-th kept function (again)
    Exec(usize),
    /// host API: define a native function in any module (created on demand)
    Native(String, String),
    /// host API: read a module-level variable and display it
    GetG(String, String),
}

#[derive(Debug, Default)]
struct Case {
    id: String,
    opts: HashMap<String, String>,
    mods: Vec<(String, String)>,
    globals: Vec<(String, f64)>,
    steps: Vec<Step>,
}

struct Reader {
    data: Vec<u8>,
    pos: usize,
}

impl Reader {
    fn line(&mut self) -> Option<String> {
        if self.pos >= self.data.len() {
            return None;
        }
        let start = self.pos;
        while self.pos < self.data.len() && self.data[self.pos] != b'\n' {
            self.pos += 1;
        }
        let line = String::from_utf8_lossy(&self.data[start..self.pos]).into_owned();
        self.pos += 1;
        Some(line)
    }

    fn blob(&mut self, n: usize) -> String {
        let end = (self.pos + n).min(self.data.len());
        let blob = String::from_utf8(self.data[self.pos..end].to_vec())
            .expect("harness: blob is not UTF-8");
        self.pos = end + 1; // trailing newline
        blob
    }
}

fn read_cases(data: Vec<u8>) -> Vec<Case> {
    let mut reader = Reader { data, pos: 0 };
    let mut cases = Vec::new();
    let mut current: Option<Case> = None;
    while let Some(line) = reader.line() {
        if line.is_empty() {
            continue;
        }
        let mut parts = line.splitn(3, ' ');
        let cmd = parts.next().unwrap();
        let a = parts.next().unwrap_or("");
        let b = parts.next().unwrap_or("");
        match cmd {
            "CASE" => {
                current = Some(Case {
                    id: a.to_owned(),
                    ..Default::default()
                });
            }
            "END" => {
                if let Some(case) = current.take() {
                    cases.push(case);
                }
            }
            _ => {
                let case = current.as_mut().expect("harness: command outside CASE");
                match cmd {
                    "SET" => {
                        case.opts.insert(a.to_owned(), b.to_owned());
                    }
                    "MOD" => {
                        let n: usize = b.parse().expect("harness: MOD length");
                        let src = reader.blob(n);
                        case.mods.push((a.to_owned(), src));
                    }
                    "GLOBAL" => {
                        let bits = u64::from_str_radix(b, 16).expect("harness: GLOBAL bits");
                        case.globals.push((a.to_owned(), f64::from_bits(bits)));
                    }
                    "SNIP" => {
                        let n: usize = a.parse().expect("harness: SNIP length");
                        case.steps.push(Step::Snip(reader.blob(n)));
                    }
                    "COMPILE" => {
                        let n: usize = a.parse().expect("harness: COMPILE length");
                        case.steps.push(Step::Compile(reader.blob(n)));
                    }
                    "PREFIXES" => {
                        let n: usize = a.parse().expect("harness: PREFIXES length");
                        case.steps.push(Step::Prefixes(reader.blob(n)));
                    }
                    "INTERN" => {
                        let n: usize = a.parse().expect("harness: INTERN length");
                        case.steps.push(Step::Intern(reader.blob(n)));
                    }
                    "KEEP" => {
                        let n: usize = a.parse().expect("harness: KEEP length");
                        case.steps.push(Step::Keep(reader.blob(n)));
                    }
                    "EXEC" => case.steps.push(Step::Exec(a.parse().expect("harness: EXEC index"))),
                    "NATIVE" => case.steps.push(Step::Native(a.to_owned(), b.to_owned())),
                    "GETG" => case.steps.push(Step::GetG(a.to_owned(), b.to_owned())),
                    "RESET" => case.steps.push(Step::Reset),
                    "STATS" => case.steps.push(Step::Stats),
                    "STRSTORE" => {
                        let mut p = b.splitn(2, ' ');
                        let ops = p.next().unwrap_or("0").parse().unwrap_or(0);
                        let mode = p.next().unwrap_or("fnv").to_owned();
                        case.steps
                            .push(Step::StrStore(a.parse().unwrap_or(0), ops, mode));
                    }
                    other => panic!("harness: unknown command {}", other),
                }
            }
        }
    }
    cases
}

// ------------------------------------------------------------------------- host functions

fn capture_print(vm: &mut Vm, num_args: usize) -> Result<Value, Error> {
    if num_args != 1 {
        return Err(Error::with_message(
            ErrorKind::TypeError,
            "Expected one argument to 'print'.",
        ));
    }
    let text = format!("{}", vm.native_arg(1));
    OUTPUT.with(|output| output.borrow_mut().push(text));
    Ok(Value::None)
}

fn module_loader(path: &str) -> Result<String, Error> {
    LOADS.with(|l| l.borrow_mut().push(path.to_owned()));
    MODULES.with(|m| match m.borrow().get(path) {
        Some(src) => Ok(src.clone()),
        None => Err(Error::with_message(
            ErrorKind::ImportError,
            &format!("Unable to read file '{}.yl' (file not found).", path),
        )),
    })
}

fn kind_from_index(i: i64) -> ErrorKind {
    match i {
        0 => ErrorKind::AttributeError,
        1 => ErrorKind::CompileError,
        2 => ErrorKind::ImportError,
        3 => ErrorKind::IndexError,
        4 => ErrorKind::NameError,
        5 => ErrorKind::RuntimeError,
        6 => ErrorKind::TypeError,
        _ => ErrorKind::ValueError,
    }
}

/// host_fail(kind_index, message): a host native that fails with the given ErrorKind.
fn host_fail(vm: &mut Vm, num_args: usize) -> Result<Value, Error> {
    if num_args != 2 {
        return Err(Error::with_message(
            ErrorKind::TypeError,
            "Expected 2 parameters.",
        ));
    }
    let kind = vm.native_arg(1).try_as_number().unwrap_or(7.0) as i64;
    let msg = format!("{}", vm.native_arg(2));
    Err(Error::with_message(kind_from_index(kind), &msg))
}

/// host_echo(x): returns its argument.
fn host_echo(vm: &mut Vm, num_args: usize) -> Result<Value, Error> {
    if num_args != 1 {
        return Err(Error::with_message(
            ErrorKind::TypeError,
            "Expected 1 parameter.",
        ));
    }
    Ok(vm.native_arg(1))
}

/// host_str(x): a host-created string with the display text of x (goes through the intern table
/// by the host route).
fn host_str(vm: &mut Vm, num_args: usize) -> Result<Value, Error> {
    if num_args != 1 {
        return Err(Error::with_message(
            ErrorKind::TypeError,
            "Expected 1 parameter.",
        ));
    }
    let text = format!("{}", vm.native_arg(1));
    Ok(Value::ObjString(vm.new_gc_obj_string(&text)))
}

// ------------------------------------------------------------------------- running

fn kind_name(kind: ErrorKind) -> &'static str {
    match kind {
        ErrorKind::AttributeError => "AttributeError",
        ErrorKind::CompileError => "CompileError",
        ErrorKind::ImportError => "ImportError",
        ErrorKind::IndexError => "IndexError",
        ErrorKind::NameError => "NameError",
        ErrorKind::RuntimeError => "RuntimeError",
        ErrorKind::TypeError => "TypeError",
        ErrorKind::ValueError => "ValueError",
    }
}

fn new_vm(case: &Case) -> Vm {
    let mut vm = Vm::with_built_ins();
    vm.set_printer(capture_print);
    vm.set_module_loader(module_loader);
    if case.opts.get("natives").map(|s| s == "1").unwrap_or(false) {
        define_natives(&mut vm);
    }
    for (name, value) in &case.globals {
        vm.set_global("main", name, Value::Number(*value));
    }
    if case.opts.get("hostclasses").map(|s| s == "1").unwrap_or(false) {
        define_host_classes(&mut vm);
    }
    vm
}

// A class hierarchy declared by the embedding program through the public API, with native methods:
//   HAnimal              speak -> "...",   legs -> 4, kind -> "animal"
//     HBird (HAnimal)    speak -> "tweet", legs -> 2
//       HParrot (HBird)  speak -> "hello"
// and one instance of each as globals hgeneric / htweety / hpolly.
fn hs(vm: &mut Vm, text: &str) -> Result<Value, Error> {
    Ok(Value::ObjString(vm.new_gc_obj_string(text)))
}
fn h_animal_speak(vm: &mut Vm, _n: usize) -> Result<Value, Error> { hs(vm, "...") }
fn h_animal_legs(_vm: &mut Vm, _n: usize) -> Result<Value, Error> { Ok(Value::Number(4.0)) }
fn h_animal_kind(vm: &mut Vm, _n: usize) -> Result<Value, Error> { hs(vm, "animal") }
fn h_bird_speak(vm: &mut Vm, _n: usize) -> Result<Value, Error> { hs(vm, "tweet") }
fn h_bird_legs(_vm: &mut Vm, _n: usize) -> Result<Value, Error> { Ok(Value::Number(2.0)) }
fn h_parrot_speak(vm: &mut Vm, _n: usize) -> Result<Value, Error> { hs(vm, "hello") }

fn declare_host_class(
    vm: &mut Vm,
    name: &str,
    metaclass: yarel::memory::Gc<yarel::object::ObjClass>,
    superclass: yarel::memory::Gc<yarel::object::ObjClass>,
    defs: &[(&str, yarel::object::NativeFn)],
    keep: &mut Vec<yarel::memory::Root<yarel::object::ObjNative>>,
) -> yarel::memory::Root<yarel::object::ObjClass> {
    let mut methods = yarel::object::new_obj_string_value_map();
    for (method_name, function) in defs {
        let method_name = vm.new_gc_obj_string(method_name);
        let native = vm.new_root_obj_native(method_name, *function);
        methods.insert(method_name, Value::ObjNative(native.as_gc()));
        keep.push(native);
    }
    let name = vm.new_gc_obj_string(name);
    vm.new_root_obj_class(name, metaclass, Some(superclass), methods)
}

fn define_host_classes(vm: &mut Vm) {
    use yarel::object::NativeFn;
    let type_class = vm.global("main", "Type").unwrap().try_as_obj_class().unwrap();
    let object_class = vm.global("main", "Object").unwrap().try_as_obj_class().unwrap();
    let mut keep = Vec::new();
    let animal = declare_host_class(vm, "HAnimal", type_class, object_class,
        &[("speak", h_animal_speak as NativeFn), ("legs", h_animal_legs as NativeFn), ("kind", h_animal_kind as NativeFn)], &mut keep);
    let bird = declare_host_class(vm, "HBird", type_class, animal.as_gc(),
        &[("speak", h_bird_speak as NativeFn), ("legs", h_bird_legs as NativeFn)], &mut keep);
    let parrot = declare_host_class(vm, "HParrot", type_class, bird.as_gc(),
        &[("speak", h_parrot_speak as NativeFn)], &mut keep);
    let polly = vm.new_root_obj_instance(parrot.as_gc());
    let tweety = vm.new_root_obj_instance(bird.as_gc());
    let generic = vm.new_root_obj_instance(animal.as_gc());
    vm.set_global("main", "HAnimal", Value::ObjClass(animal.as_gc()));
    vm.set_global("main", "HBird", Value::ObjClass(bird.as_gc()));
    vm.set_global("main", "HParrot", Value::ObjClass(parrot.as_gc()));
    vm.set_global("main", "hpolly", Value::ObjInstance(polly.as_gc()));
    vm.set_global("main", "htweety", Value::ObjInstance(tweety.as_gc()));
    vm.set_global("main", "hgeneric", Value::ObjInstance(generic.as_gc()));
}

fn define_natives(vm: &mut Vm) {
    vm.define_native("main", "host_fail", host_fail);
    vm.define_native("main", "host_echo", host_echo);
    vm.define_native("main", "host_str", host_str);
}

#[cfg(feature = "hooks")]
fn state_json(vm: &Vm, out: &mut String) {
    let s = vm.verif_state();
    let _ = write!(
        out,
        ",\"state\":{{\"handling_exception\":{},\"frames\":{},\"stack_len\":{},\"handlers\":{},\"has_caller\":{},\"working_class_def\":{},\"modules\":{},\"chunks\":{},\"fiber_coherent\":{}}}",
        s.handling_exception,
        s.frames,
        s.stack_len,
        s.handlers,
        s.has_caller,
        s.working_class_def,
        s.modules,
        s.chunks,
        s.fiber_coherent
    );
}

#[cfg(not(feature = "hooks"))]
fn state_json(_vm: &Vm, _out: &mut String) {}

fn take_output() -> Vec<String> {
    OUTPUT.with(|o| std::mem::take(&mut *o.borrow_mut()))
}

fn panic_json(out: &mut String) {
    let info = PANIC_INFO.with(|p| p.borrow_mut().take());
    let (msg, loc) = info.unwrap_or_else(|| ("<unknown>".to_owned(), "<unknown>".to_owned()));
    out.push_str(",\"panic_msg\":");
    json_str(out, &msg);
    out.push_str(",\"panic_loc\":");
    json_str(out, &loc);
}

fn error_json(out: &mut String, error: &Error) {
    out.push_str(",\"kind\":");
    json_str(out, kind_name(error.kind()));
    out.push_str(",\"msgs\":");
    json_str_list(out, error.messages());
}

/// Checks the shape of a compile error: kind CompileError, at least one message, every message
/// `[module "<m>", line <n>] Error[ at end| at '<lexeme>']: <text>` with 1 <= n <= lines+1.
fn validate_compile_error(error: &Error, source: &str, module: &str) -> Vec<String> {
    let mut problems = Vec::new();
    if error.kind() != ErrorKind::CompileError {
        problems.push(format!("error kind is {} not CompileError", kind_name(error.kind())));
    }
    if error.messages().is_empty() {
        problems.push("compile error without any message".to_owned());
    }
    let max_line = source.matches('\n').count() + 1;
    let prefix = format!("[module \"{}\", line ", module);
    for msg in error.messages() {
        let rest = match msg.strip_prefix(&prefix) {
            Some(rest) => rest,
            None => {
                problems.push(format!("message without location: {}", msg));
                continue;
            }
        };
        let digits: String = rest.chars().take_while(|c| c.is_ascii_digit()).collect();
        let line: usize = match digits.parse() {
            Ok(n) => n,
            Err(_) => {
                problems.push(format!("message without line number: {}", msg));
                continue;
            }
        };
        if line < 1 || line > max_line {
            problems.push(format!("line {} outside 1..={}: {}", line, max_line, msg));
        }
        let rest = &rest[digits.len()..];
        let rest = match rest.strip_prefix("] Error") {
            Some(rest) => rest,
            None => {
                problems.push(format!("malformed message: {}", msg));
                continue;
            }
        };
        let ok = if let Some(tail) = rest.strip_prefix(" at end: ") {
            !tail.is_empty()
        } else if let Some(tail) = rest.strip_prefix(" at '") {
            tail.contains("': ") && !tail.ends_with("': ")
        } else if let Some(tail) = rest.strip_prefix(": ") {
            !tail.is_empty()
        } else {
            false
        };
        if !ok {
            problems.push(format!("malformed message: {}", msg));
        }
    }
    problems
}

/// One compile with every check the totality property asks for. Returns (outcome, problems).
fn checked_compile(vm: &mut Vm, src: &str) -> (&'static str, Vec<String>, usize) {
    #[cfg(feature = "hooks")]
    let _ = compiler::verif::take_error_count();
    let result = panic::catch_unwind(AssertUnwindSafe(|| {
        compiler::compile(vm, src.to_owned(), None)
    }));
    let mut problems = Vec::new();
    let mut instructions = 0;
    let outcome = match result {
        Ok(Ok(function)) => {
            let report = chunkcheck::check_function(&function);
            instructions = report.instructions;
            problems.extend(report.problems);
            #[cfg(feature = "hooks")]
            {
                let n = compiler::verif::take_error_count();
                if n > 0 {
                    problems.push(format!("compile returned a function after recording {} error(s)", n));
                }
            }
            "ok"
        }
        Ok(Err(error)) => {
            problems.extend(validate_compile_error(&error, src, "main"));
            #[cfg(feature = "hooks")]
            {
                let n = compiler::verif::take_error_count();
                if n == 0 {
                    problems.push("compile returned an error without having recorded one".to_owned());
                }
                if n as usize != error.messages().len() {
                    problems.push(format!("{} errors recorded but {} messages returned", n, error.messages().len()));
                }
            }
            "err"
        }
        Err(_) => {
            let info = PANIC_INFO.with(|p| p.borrow_mut().take());
            let (msg, loc) = info.unwrap_or_else(|| ("<unknown>".to_owned(), "<unknown>".to_owned()));
            problems.push(format!("PANIC {} @ {}", msg, loc));
            "panic"
        }
    };
    (outcome, problems, instructions)
}

/// Runs one step; returns false if the step panicked (the Vm must then be abandoned).
fn run_step(vm: &mut Vm, step: &Step, case: &Case, out: &mut String) -> bool {
    let _ = case;
    match step {
        Step::Snip(src) => {
            #[cfg(feature = "hooks")]
            let _ = compiler::verif::take_error_count();
            let result = panic::catch_unwind(AssertUnwindSafe(|| {
                vm::interpret(vm, src.clone(), None)
            }));
            out.push_str("{\"k\":\"snip\",\"out\":");
            json_str_list(out, &take_output());
            match result {
                Ok(Ok(_)) => out.push_str(",\"res\":\"ok\""),
                Ok(Err(error)) => {
                    out.push_str(",\"res\":\"err\"");
                    error_json(out, &error);
                }
                Err(_) => {
                    out.push_str(",\"res\":\"panic\"");
                    panic_json(out);
                    out.push('}');
                    return false;
                }
            }
            #[cfg(feature = "hooks")]
            {
                let _ = write!(
                    out,
                    ",\"errs_recorded\":{}",
                    compiler::verif::take_error_count()
                );
            }
            state_json(vm, out);
            out.push('}');
            true
        }
        Step::Compile(src) => {
            let (outcome, problems, instructions) = checked_compile(vm, src);
            let _ = write!(
                out,
                "{{\"k\":\"compile\",\"res\":\"{}\",\"instructions\":{},\"problems\":",
                outcome, instructions
            );
            json_str_list(out, &problems);
            out.push('}');
            outcome != "panic"
        }
        Step::Keep(src) => {
            let result = panic::catch_unwind(AssertUnwindSafe(|| compiler::compile(vm, src.clone(), None)));
            out.push_str("{\"k\":\"keep\"");
            match result {
                Ok(Ok(function)) => {
                    KEPT_FUNCTIONS.with(|k| k.borrow_mut().push(function));
                    out.push_str(",\"res\":\"ok\"}");
                    true
                }
                Ok(Err(error)) => {
                    out.push_str(",\"res\":\"err\"");
                    error_json(out, &error);
                    out.push('}');
                    true
                }
                Err(_) => {
                    out.push_str(",\"res\":\"panic\"");
                    panic_json(out);
                    out.push('}');
                    false
                }
            }
        }
        Step::Exec(index) => {
            let function = KEPT_FUNCTIONS.with(|k| k.borrow().get(*index).cloned());
            out.push_str("{\"k\":\"snip\",\"out\":");
            let function = match function {
                Some(f) => f,
                None => {
                    out.push_str("[],\"res\":\"missing\"}");
                    return true;
                }
            };
            let result = panic::catch_unwind(AssertUnwindSafe(|| vm.execute(function, &[])));
            json_str_list(out, &take_output());
            match result {
                Ok(Ok(_)) => out.push_str(",\"res\":\"ok\""),
                Ok(Err(error)) => {
                    out.push_str(",\"res\":\"err\"");
                    error_json(out, &error);
                }
                Err(_) => {
                    out.push_str(",\"res\":\"panic\"");
                    panic_json(out);
                    out.push('}');
                    return false;
                }
            }
            state_json(vm, out);
            out.push('}');
            true
        }
        Step::Native(module, name) => {
            let result = panic::catch_unwind(AssertUnwindSafe(|| vm.define_native(module, name, host_echo)));
            out.push_str("{\"k\":\"native\"");
            if result.is_err() {
                out.push_str(",\"res\":\"panic\"");
                panic_json(out);
                out.push('}');
                return false;
            }
            out.push_str(",\"res\":\"ok\"}");
            true
        }
        Step::GetG(module, name) => {
            let result = panic::catch_unwind(AssertUnwindSafe(|| {
                vm.global(module, name).map(|v| format!("{}", v))
            }));
            out.push_str("{\"k\":\"getg\"");
            match result {
                Ok(text) => {
                    out.push_str(",\"res\":\"ok\",\"text\":");
                    json_str(out, &text.unwrap_or_else(|| "<none>".to_owned()));
                    out.push('}');
                    true
                }
                Err(_) => {
                    out.push_str(",\"res\":\"panic\"");
                    panic_json(out);
                    out.push('}');
                    false
                }
            }
        }
        Step::Reset => {
            let result = panic::catch_unwind(AssertUnwindSafe(|| vm.reset()));
            out.push_str("{\"k\":\"reset\"");
            if result.is_err() {
                out.push_str(",\"res\":\"panic\"");
                panic_json(out);
                out.push('}');
                return false;
            }
            out.push_str(",\"res\":\"ok\"");
            state_json(vm, out);
            out.push('}');
            true
        }
        Step::Stats => {
            out.push_str("{\"k\":\"stats\"");
            #[cfg(feature = "hooks")]
            {
                yarel::memory::verif::force_collect();
                stats_json(out);
            }
            out.push('}');
            true
        }
        Step::Intern(text) => {
            // Host route: two independent creations must be the same object, and must be the
            // very object the program stored in global `probe` (if it is a string with these bytes).
            let a = vm.new_gc_obj_string(text);
            let b = vm.new_gc_obj_string(text);
            let same = a == b;
            let global = vm.global("main", "probe");
            let (has_probe, probe_same, probe_bytes_equal) = match global {
                Some(Value::ObjString(s)) => (true, s == a, s.as_str() == text.as_str()),
                _ => (false, false, false),
            };
            let _ = write!(
                out,
                "{{\"k\":\"intern\",\"same\":{},\"has_probe\":{},\"probe_same\":{},\"probe_bytes_equal\":{}",
                same, has_probe, probe_same, probe_bytes_equal
            );
            #[cfg(feature = "hooks")]
            {
                match vm.verif_audit_string_store() {
                    Ok((entries, capacity)) => {
                        let _ = write!(out, ",\"table_entries\":{},\"table_capacity\":{},\"table_audit\":\"ok\"", entries, capacity);
                    }
                    Err(what) => {
                        out.push_str(",\"table_audit\":");
                        json_str(out, &what);
                    }
                }
            }
            out.push('}');
            true
        }
        Step::Prefixes(text) => {
            let mut ok = 0u64;
            let mut err = 0u64;
            let mut panics = 0u64;
            let mut instructions = 0u64;
            let mut anomalies: Vec<String> = Vec::new();
            let mut slowest = 0u128;
            let mut slowest_at = 0usize;
            let mut cut = 0usize;
            loop {
                if text.is_char_boundary(cut) {
                    let t0 = std::time::Instant::now();
                    let (outcome, problems, n) = checked_compile(vm, &text[..cut]);
                    let dt = t0.elapsed().as_micros();
                    if dt > slowest {
                        slowest = dt;
                        slowest_at = cut;
                    }
                    instructions += n as u64;
                    match outcome {
                        "ok" => ok += 1,
                        "err" => err += 1,
                        _ => panics += 1,
                    }
                    for problem in problems {
                        if anomalies.len() < 10 {
                            anomalies.push(format!("prefix {}: {}", cut, problem));
                        }
                    }
                    if outcome == "panic" {
                        // the Vm may be inconsistent after a panic: stop this case
                        let _ = write!(
                            out,
                            "{{\"k\":\"prefixes\",\"ok\":{},\"err\":{},\"panics\":{},\"instructions\":{},\"anomalies\":",
                            ok, err, panics, instructions
                        );
                        json_str_list(out, &anomalies);
                        out.push('}');
                        return false;
                    }
                }
                if cut >= text.len() {
                    break;
                }
                cut += 1;
            }
            let _ = write!(
                out,
                "{{\"k\":\"prefixes\",\"ok\":{},\"err\":{},\"panics\":{},\"instructions\":{},\"slowest_us\":{},\"slowest_at\":{},\"anomalies\":",
                ok, err, panics, instructions, slowest, slowest_at
            );
            json_str_list(out, &anomalies);
            out.push('}');
            true
        }
        Step::StrStore(_seed, _ops, _mode) => {
            #[cfg(feature = "hooks")]
            {
                let report = strstore::run_history(*_seed, *_ops, _mode);
                out.push_str(&report);
            }
            #[cfg(not(feature = "hooks"))]
            out.push_str("{\"k\":\"strstore\",\"res\":\"unsupported\"}");
            true
        }
    }
}

#[cfg(feature = "hooks")]
fn stats_json(out: &mut String) {
    let stats = yarel::memory::verif::heap_stats();
    let _ = write!(
        out,
        ",\"objects\":{},\"rooted\":{},\"bytes\":{},\"threshold\":{},\"by_type\":{{",
        stats.objects, stats.rooted, stats.bytes_allocated, stats.threshold
    );
    for (i, (name, count, bytes)) in stats.by_type.iter().enumerate() {
        if i > 0 {
            out.push(',');
        }
        json_str(out, name);
        let _ = write!(out, ":[{},{}]", count, bytes);
    }
    out.push('}');
}

#[cfg(feature = "hooks")]
fn configure_hooks(case: &Case) {
    use yarel::memory::verif::{self as mv, GcMode};
    let gc = case.opts.get("gc").map(|s| s.as_str()).unwrap_or("default");
    let mode = if gc == "default" {
        GcMode::Default
    } else if gc == "never" {
        GcMode::Never
    } else if gc == "always" {
        GcMode::Always
    } else if let Some(rest) = gc.strip_prefix("seeded:") {
        let mut p = rest.split(':');
        let seed = p.next().unwrap_or("0").parse().unwrap_or(0);
        let num = p.next().unwrap_or("64").parse().unwrap_or(64);
        GcMode::Seeded { state: seed, num }
    } else if let Some(rest) = gc.strip_prefix("nth:") {
        GcMode::EveryNth(rest.parse().unwrap_or(1))
    } else {
        panic!("harness: unknown gc mode {}", gc);
    };
    let default_mode = matches!(mode, GcMode::Default);
    mv::set_gc_mode(mode);
    let flag = |k: &str| case.opts.get(k).map(|s| s != "0").unwrap_or(false);
    mv::set_quarantine(flag("quarantine"));
    mv::set_audit_every(
        case.opts
            .get("audit")
            .and_then(|s| s.parse().ok())
            .unwrap_or(0),
    );
    mv::set_trace(flag("trace"));
    yarel::vm::verif::set_dispatch_monitor(flag("dispatch"));
    let _ = yarel::vm::verif::take_dispatch_stats();
    if default_mode {
        // start from the pacing state of a fresh heap
        mv::force_collect();
        mv::reset_pacing();
    }
    let _ = mv::take_events();
    let _ = mv::take_heap_events();
    let _ = mv::take_counters();
}

#[cfg(feature = "hooks")]
fn finish_hooks(case: &Case, out: &mut String) {
    use yarel::memory::verif as mv;
    let flag = |k: &str| case.opts.get(k).map(|s| s != "0").unwrap_or(false);
    // C16: replay the allocation/sweep event stream against the shadow account
    if flag("trace") {
        let events = mv::take_heap_events();
        let report = heapcheck::check(&events);
        out.push_str(",\"heap\":");
        out.push_str(&report);
    }
    if flag("dropcheck") {
        // the Vm has been dropped: after a forced collection nothing may be left
        mv::set_gc_mode(mv::GcMode::Never);
        mv::force_collect();
        out.push_str(",\"after_drop\":{\"k\":\"stats\"");
        stats_json(out);
        out.push('}');
    }
    let (events, counts) = mv::take_events();
    out.push_str(",\"events\":[");
    for (i, e) in events.iter().enumerate() {
        if i > 0 {
            out.push(',');
        }
        out.push_str("{\"kind\":");
        json_str(out, e.kind);
        out.push_str(",\"sig\":");
        json_str(out, &e.signature);
        out.push_str(",\"detail\":");
        json_str(out, &e.detail);
        out.push('}');
    }
    out.push_str("],\"event_counts\":{");
    for (i, (sig, n)) in counts.iter().enumerate() {
        if i > 0 {
            out.push(',');
        }
        json_str(out, sig);
        let _ = write!(out, ":{}", n);
    }
    out.push('}');
    let c = mv::take_counters();
    let _ = write!(
        out,
        ",\"counters\":{{\"derefs\":{},\"allocations\":{},\"collections\":{},\"audits\":{},\"audited_objects\":{},\"audited_edges\":{},\"upvalue_accesses\":{},\"quarantined\":{}}}",
        c.derefs, c.allocations, c.collections, c.audits, c.audited_objects, c.audited_edges,
        c.upvalue_accesses, c.quarantined
    );
    out.push_str(",\"sole_edges\":{");
    for (i, (label, n)) in c.sole_edge_labels.iter().enumerate() {
        if i > 0 {
            out.push(',');
        }
        json_str(out, label);
        let _ = write!(out, ":{}", n);
    }
    out.push_str("},\"edges\":{");
    for (i, (label, n)) in c.edge_labels.iter().enumerate() {
        if i > 0 {
            out.push(',');
        }
        json_str(out, label);
        let _ = write!(out, ":{}", n);
    }
    out.push('}');
    if flag("dispatch") {
        let d = yarel::vm::verif::take_dispatch_stats();
        let _ = write!(
            out,
            ",\"dispatch\":{{\"dispatched\":{},\"chunks\":{},\"instructions\":{},\"distinct_executed\":{},\"handler_targets\":{}}}",
            d.dispatched, d.chunks_seen, d.instructions_in_seen_chunks, d.distinct_offsets_executed, d.handler_targets
        );
    }
    yarel::vm::verif::set_dispatch_monitor(false);
    mv::set_quarantine(false);
    mv::set_audit_every(0);
    mv::set_trace(false);
    mv::purge_quarantine();
}

thread_local! {
    static KEPT_VM: RefCell<Option<Vm>> = RefCell::new(None);
    static KEPT_FUNCTIONS: RefCell<Vec<yarel::memory::Root<yarel::object::ObjFunction>>> = RefCell::new(Vec::new());
}

fn run_case(case: &Case) -> String {
    let mut out = String::new();
    out.push_str("{\"id\":");
    json_str(&mut out, &case.id);
    MODULES.with(|m| {
        let mut m = m.borrow_mut();
        m.clear();
        for (path, src) in &case.mods {
            m.insert(path.clone(), src.clone());
        }
    });
    LOADS.with(|l| l.borrow_mut().clear());
    KEPT_FUNCTIONS.with(|k| k.borrow_mut().clear());
    let _ = take_output();
    #[cfg(feature = "hooks")]
    configure_hooks(case);

    let keep = case.opts.get("keepvm").map(|s| s == "1").unwrap_or(false);
    let mut vm_opt: Option<Vm> = if keep {
        KEPT_VM.with(|k| k.borrow_mut().take())
    } else {
        None
    };
    let mut panicked = false;
    if vm_opt.is_none() {
        match panic::catch_unwind(AssertUnwindSafe(|| new_vm(case))) {
            Ok(vm) => vm_opt = Some(vm),
            Err(_) => {
                out.push_str(",\"vm_new\":\"panic\"");
                panic_json(&mut out);
                panicked = true;
            }
        }
    }
    out.push_str(",\"steps\":[");
    if let Some(vm) = vm_opt.as_mut() {
        for (i, step) in case.steps.iter().enumerate() {
            if i > 0 {
                out.push(',');
            }
            if !run_step(vm, step, case, &mut out) {
                panicked = true;
                break;
            }
        }
    }
    out.push(']');
    out.push_str(",\"loads\":");
    let loads = LOADS.with(|l| std::mem::take(&mut *l.borrow_mut()));
    json_str_list(&mut out, &loads);
    KEPT_FUNCTIONS.with(|k| k.borrow_mut().clear());
    if let Some(vm) = vm_opt.take() {
        if keep && !panicked {
            KEPT_VM.with(|k| *k.borrow_mut() = Some(vm));
        } else {
            let dropped = panic::catch_unwind(AssertUnwindSafe(move || drop(vm)));
            if dropped.is_err() {
                out.push_str(",\"drop\":\"panic\"");
                panic_json(&mut out);
            }
        }
    }
    #[cfg(feature = "hooks")]
    finish_hooks(case, &mut out);
    out.push('}');
    out
}

fn main() {
    let args: Vec<String> = std::env::args().collect();
    let mut data = Vec::new();
    if args.len() > 1 && args[1] != "-" {
        data = std::fs::read(&args[1]).expect("harness: cannot read batch file");
    } else {
        io::stdin()
            .read_to_end(&mut data)
            .expect("harness: cannot read stdin");
    }
    panic::set_hook(Box::new(|info| {
        let msg = if let Some(s) = info.payload().downcast_ref::<&str>() {
            (*s).to_owned()
        } else if let Some(s) = info.payload().downcast_ref::<String>() {
            s.clone()
        } else {
            "<non-string panic payload>".to_owned()
        };
        let loc = info
            .location()
            .map(|l| format!("{}:{}", l.file(), l.line()))
            .unwrap_or_else(|| "<unknown>".to_owned());
        PANIC_INFO.with(|p| {
            let mut p = p.borrow_mut();
            if p.is_none() {
                *p = Some((msg, loc));
            }
        });
    }));
    let cases = read_cases(data);
    let stdout = io::stdout();
    let mut out: Box<dyn Write> = if args.len() > 2 {
        Box::new(std::fs::File::create(&args[2]).expect("harness: cannot create output file"))
    } else {
        Box::new(stdout.lock())
    };
    for case in &cases {
        let mut begin = String::from("{\"begin\":");
        json_str(&mut begin, &case.id);
        begin.push('}');
        writeln!(out, "{}", begin).unwrap();
        out.flush().unwrap();
        PANIC_INFO.with(|p| *p.borrow_mut() = None);
        let line = match panic::catch_unwind(AssertUnwindSafe(|| run_case(case))) {
            Ok(line) => line,
            Err(_) => {
                let mut line = String::from("{\"id\":");
                json_str(&mut line, &case.id);
                line.push_str(",\"harness_panic\":true");
                panic_json(&mut line);
                line.push('}');
                line
            }
        };
        writeln!(out, "{}", line).unwrap();
        out.flush().unwrap();
    }
    // The kept Vm (if any) is dropped here.
    KEPT_VM.with(|k| {
        let _ = k.borrow_mut().take();
    });
    writeln!(out, "{{\"done\":{}}}", cases.len()).unwrap();
    out.flush().unwrap();
}
