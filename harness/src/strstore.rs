// C11(a): the intern table in isolation against a dictionary model, with hash functions chosen by
// the harness so that growth happens at every size with long probe chains and full-hash collisions.
use std::collections::HashMap;
use std::fmt::Write;

use yarel::vm::verif_strstore::Store;

fn splitmix64(state: &mut u64) -> u64 {
    *state = state.wrapping_add(0x9e37_79b9_7f4a_7c15);
    let mut z = *state;
    z = (z ^ (z >> 30)).wrapping_mul(0xbf58_476d_1ce4_e5b9);
    z = (z ^ (z >> 27)).wrapping_mul(0x94d0_49bb_1331_11eb);
    z ^ (z >> 31)
}

fn fnv(text: &str) -> u64 {
    let mut hash: u64 = 2166136261;
    for c in text.bytes() {
        hash ^= c as u64;
        hash = (hash as u128 * 16777619) as u64;
    }
    // the implementation hashes a str through Hash::hash, which appends 0xff
    hash ^= 0xff;
    hash = (hash as u128 * 16777619) as u64;
    hash
}

/// hash of a text under the given mode; always a function of the text alone
fn hash_of(mode: &str, text: &str) -> u64 {
    let h = fnv(text);
    if mode == "fnv" {
        h
    } else if mode == "const" {
        12345
    } else if let Some(k) = mode.strip_prefix("low") {
        // the low k bits are equal for every key
        let k: u32 = k.parse().unwrap_or(4);
        (h << k) | 0x5
    } else if let Some(g) = mode.strip_prefix("group") {
        // groups of g distinct texts share one full hash
        let g: u64 = g.parse().unwrap_or(4);
        (h / g.max(1)).wrapping_mul(0x9e37_79b9_7f4a_7c15)
    } else if mode == "wrap" {
        // hashes at the very top of the range: probing must wrap around the table
        u64::MAX - (h % 3)
    } else if mode == "seq" {
        // consecutive home slots: maximal primary clustering
        h % 64
    } else {
        h
    }
}

pub fn run_history(seed: u64, ops: u64, mode: &str) -> String {
    let mut rng = seed ^ 0xabcdef;
    let mut store = Store::new();
    let mut model: HashMap<String, usize> = HashMap::new();
    let mut keys: Vec<String> = Vec::new();
    let mut problems: Vec<String> = Vec::new();
    let mut audits = 0u64;
    let mut growths = 0u64;
    let mut max_capacity = 0usize;
    let mut last_capacity = 0usize;
    let mut gets_hit = 0u64;
    let mut gets_miss = 0u64;
    let mut inserts = 0u64;
    let mut push = |problems: &mut Vec<String>, s: String| {
        if problems.len() < 8 {
            problems.push(s);
        }
    };
    for op in 0..ops {
        let r = splitmix64(&mut rng);
        let fresh = keys.is_empty() || r % 100 < 55;
        let text = if fresh {
            format!("k{}-{}", keys.len(), r % 7)
        } else if r % 100 < 85 {
            keys[(r >> 8) as usize % keys.len()].clone()
        } else {
            format!("absent{}", r >> 40)
        };
        let hash = hash_of(mode, &text);
        let found = store.get(hash, &text);
        match (found, model.get(&text)) {
            (Some(addr), Some(&expected)) => {
                gets_hit += 1;
                if addr != expected {
                    push(&mut problems, format!("op {}: get({:?}) returned a different object than the one interned first", op, text));
                }
            }
            (None, None) => {
                gets_miss += 1;
                if fresh || r % 2 == 0 {
                    let addr = store.insert(hash, &text);
                    inserts += 1;
                    model.insert(text.clone(), addr);
                    keys.push(text.clone());
                    if store.get(hash, &text) != Some(addr) {
                        push(&mut problems, format!("op {}: {:?} not found right after its insertion", op, text));
                    }
                }
            }
            (Some(_), None) => {
                push(&mut problems, format!("op {}: get({:?}) found a string that was never interned", op, text));
            }
            (None, Some(_)) => {
                push(&mut problems, format!("op {}: interned string {:?} is no longer found ({} entries)", op, text, model.len()));
            }
        }
        let do_audit = op % 97 == 0 || op + 1 == ops;
        let capacity_now = match store.audit() {
            Ok((entries, capacity)) => {
                if entries != model.len() {
                    push(&mut problems, format!("op {}: table holds {} entries, model {}", op, entries, model.len()));
                }
                capacity
            }
            Err(what) => {
                push(&mut problems, format!("op {}: audit: {}", op, what));
                last_capacity
            }
        };
        audits += 1;
        if capacity_now != last_capacity {
            growths += 1;
            last_capacity = capacity_now;
            // after every growth every key must still be found, at the same address
            for (k, &addr) in model.iter() {
                if store.get(hash_of(mode, k), k) != Some(addr) {
                    push(&mut problems, format!("op {}: after growth to {} slots {:?} is lost or moved", op, capacity_now, k));
                    break;
                }
            }
        } else if do_audit {
            let probe = &keys[(r >> 16) as usize % keys.len().max(1)..];
            if let Some(k) = probe.first() {
                if store.get(hash_of(mode, k), k) != model.get(k).copied() {
                    push(&mut problems, format!("op {}: {:?} is lost or moved", op, k));
                }
            }
        }
        if capacity_now > max_capacity {
            max_capacity = capacity_now;
        }
        if !problems.is_empty() && problems.len() >= 8 {
            break;
        }
    }
    let mut out = String::new();
    let _ = write!(
        out,
        "{{\"k\":\"strstore\",\"mode\":\"{}\",\"ops\":{},\"inserted\":{},\"hits\":{},\"misses\":{},\"growths\":{},\"max_capacity\":{},\"audits\":{},\"problems\":",
        mode, ops, inserts, gets_hit, gets_miss, growths, max_capacity, audits
    );
    crate::json_str_list(&mut out, &problems);
    out.push('}');
    out
}
