pub fn run_history(_seed: u64, _ops: u64, _mode: &str) -> String {
    String::from("{\"k\":\"strstore\",\"res\":\"unsupported\"}")
}
