// Structural check of a compiled function (public fields only): one linear decode of every chunk
// with the runner's OWN operand-length table (taken from what each opcode handler in vm.rs reads,
// not from OpCode::arg_sizes, which is a disassembler table).
use std::collections::HashSet;

use yarel::chunk::OpCode;
use yarel::memory::Root;
use yarel::object::ObjFunction;
use yarel::value::Value;

pub struct Report {
    pub problems: Vec<String>,
    pub functions: usize,
    pub instructions: usize,
}

pub const NUM_OPCODES: u8 = OpCode::FinishImport as u8 + 1;

/// Operand bytes after the opcode; Closure additionally has 2 bytes per captured variable.
pub fn operand_len(op: u8) -> Option<usize> {
    macro_rules! is {
        ($($name:ident),*) => { false $(|| op == OpCode::$name as u8)* };
    }
    if is!(Constant, GetGlobal, DefineGlobal, SetGlobal, GetProperty, SetProperty, GetSuper, Jump,
           JumpIfFalse, JumpIfStopIter, Loop, Closure, DeclareClass, Method, StaticMethod,
           StartImport) {
        Some(2)
    } else if is!(GetLocal, SetLocal, GetUpvalue, SetUpvalue, BuildHashMap, BuildString,
                  BuildTuple, BuildVec, Call, Construct) {
        Some(1)
    } else if is!(Invoke, SuperInvoke) {
        Some(3)
    } else if is!(PushExcHandler) {
        Some(4)
    } else if op < NUM_OPCODES {
        Some(0)
    } else {
        None
    }
}

fn needs_string_constant(op: u8) -> bool {
    macro_rules! is {
        ($($name:ident),*) => { false $(|| op == OpCode::$name as u8)* };
    }
    is!(GetGlobal, DefineGlobal, SetGlobal, GetProperty, SetProperty, GetSuper, Invoke,
        SuperInvoke, DeclareClass, Method, StaticMethod, StartImport)
}

fn short(code: &[u8], at: usize) -> usize {
    u16::from_ne_bytes([code[at], code[at + 1]]) as usize
}

fn check_one(function: &ObjFunction, what: &str, report: &mut Report, todo: &mut Vec<(String, Value)>) {
    report.functions += 1;
    let chunk = &*function.chunk;
    let code = &chunk.code;
    let n = code.len();
    let mut probs: Vec<String> = Vec::new();
    let mut p = |msg: String| probs.push(format!("{}: {}", what, msg));
    if chunk.lines.len() != n {
        p(format!("line table has {} entries for {} code bytes", chunk.lines.len(), n));
    }
    if function.arity == 0 || function.arity > 256 {
        p(format!("arity {} out of range", function.arity));
    }
    if function.upvalue_count > 256 {
        p(format!("upvalue_count {} out of range", function.upvalue_count));
    }
    let mut boundaries = HashSet::new();
    let mut targets: Vec<(usize, usize, &'static str)> = Vec::new();
    let mut at = 0;
    let mut last_op = None;
    let mut count = 0;
    while at < n {
        boundaries.insert(at);
        let op = code[at];
        let len = match operand_len(op) {
            Some(len) => len,
            None => {
                p(format!("unknown opcode {} at {}", op, at));
                break;
            }
        };
        if at + 1 + len > n {
            p(format!("operands of opcode {} at {} run past the end of the code", op, at));
            break;
        }
        let mut next = at + 1 + len;
        let has_constant = op == OpCode::Constant as u8 || op == OpCode::Closure as u8 || needs_string_constant(op);
        if has_constant {
            let index = short(code, at + 1);
            if index >= chunk.constants.len() {
                p(format!("constant index {} of opcode {} at {} outside pool of {}", index, op, at, chunk.constants.len()));
            } else {
                let constant = chunk.constants[index];
                if needs_string_constant(op) && constant.try_as_obj_string().is_none() {
                    p(format!("opcode {} at {} names constant {} which is not a string", op, at, index));
                }
                if op == OpCode::Closure as u8 {
                    match constant {
                        Value::ObjFunction(inner) => {
                            let extra = 2 * inner.upvalue_count;
                            if next + extra > n {
                                p(format!("capture descriptors of Closure at {} run past the end", at));
                                break;
                            }
                            for k in 0..inner.upvalue_count {
                                let is_local = code[next + 2 * k];
                                if is_local > 1 {
                                    p(format!("capture descriptor {} of Closure at {} has is_local={}", k, at, is_local));
                                }
                                if is_local == 0 && (code[next + 2 * k + 1] as usize) >= function.upvalue_count.max(1) && function.upvalue_count == 0 {
                                    p(format!("capture descriptor {} of Closure at {} names enclosing capture {} but the function has none", k, at, code[next + 2 * k + 1]));
                                }
                            }
                            next += extra;
                            todo.push((format!("{}/{}", what, &*inner.name), constant));
                        }
                        _ => p(format!("Closure at {} names constant {} which is not a function", at, index)),
                    }
                }
            }
        }
        if op == OpCode::Jump as u8 || op == OpCode::JumpIfFalse as u8 || op == OpCode::JumpIfStopIter as u8 {
            targets.push((at, at + 3 + short(code, at + 1), "jump"));
        } else if op == OpCode::Loop as u8 {
            let off = short(code, at + 1);
            if off > at + 3 {
                p(format!("Loop at {} jumps {} back, before the start of the code", at, off));
            } else {
                targets.push((at, at + 3 - off, "loop"));
            }
        } else if op == OpCode::PushExcHandler as u8 {
            let try_size = short(code, at + 1);
            let catch_size = short(code, at + 3);
            targets.push((at, at + 5 + try_size, "catch"));
            targets.push((at, at + 5 + try_size + catch_size, "finally"));
        }
        if op == OpCode::GetUpvalue as u8 || op == OpCode::SetUpvalue as u8 {
            let index = code[at + 1] as usize;
            if index >= function.upvalue_count {
                p(format!("upvalue index {} at {} but the function captures {}", index, at, function.upvalue_count));
            }
        }
        last_op = Some(op);
        count += 1;
        at = next;
    }
    for (from, target, kind) in targets {
        if target >= n {
            p(format!("{} target {} of instruction at {} is outside the code ({} bytes)", kind, target, from, n));
        } else if !boundaries.contains(&target) {
            p(format!("{} target {} of instruction at {} is not an instruction boundary", kind, target, from));
        }
    }
    if at == n && last_op != Some(OpCode::Return as u8) {
        p(format!("code does not end with Return (last opcode {:?})", last_op));
    }
    report.instructions += count;
    report.problems.extend(probs);
}

pub fn check_function(function: &Root<ObjFunction>) -> Report {
    let mut report = Report { problems: Vec::new(), functions: 0, instructions: 0 };
    let mut todo: Vec<(String, Value)> = Vec::new();
    check_one(&**function, "script", &mut report, &mut todo);
    let mut seen = HashSet::new();
    while let Some((what, value)) = todo.pop() {
        if let Value::ObjFunction(inner) = value {
            let key = &*inner as *const ObjFunction as usize;
            if !seen.insert(key) {
                continue;
            }
            check_one(&*inner, &what, &mut report, &mut todo);
        }
        if report.problems.len() > 20 {
            break;
        }
    }
    report
}
