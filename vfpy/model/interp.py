"""Reference model, part 2: resolver + tree-walking evaluator for the AST of parser.py.

Implements the language as the properties state it (DESIGN.md Appendix A): values, equality,
arithmetic on IEEE doubles, strings as UTF-8 byte sequences, lexical scoping with captured
*variables* (cells), classes with copy-down method tables, exceptions with finally-once, fibers as
coroutines (one Python thread per fiber, strictly hand-over-hand), modules with a registry, the
built-ins with their argument checks and message texts, the number -> text rule, error classes and
trace lines."""
import math
import re
import threading

from .parser import (ClassDecl, FnDecl, ModelCompileError, ModelUnsupported, Node, parse)

ADDR = "0x55aa00c0ffee"      # same shape and length as a heap address printed by the implementation; norm() masks both
FRAMES_MAX = 64
RANGE_CACHE = 8
ISIZE_MAX = (1 << 63) - 1
ISIZE_MIN = -(1 << 63)

threading.stack_size(256 * 1024 * 1024)


class ModelBudget(Exception):
    pass


class FiberKill(BaseException):
    pass


# ------------------------------------------------------------------------------------- values

class YClass:
    __slots__ = ("name", "metaclass", "superclass", "methods")

    def __init__(self, name, metaclass, superclass, methods=None):
        self.name = name
        self.metaclass = metaclass
        self.superclass = superclass
        self.methods = dict(superclass.methods) if superclass is not None else {}
        if methods:
            self.methods.update(methods)


class YInstance:
    __slots__ = ("cls", "fields")

    def __init__(self, cls):
        self.cls = cls
        self.fields = {}


class YVec:
    __slots__ = ("items",)

    def __init__(self, items):
        self.items = items


class YTuple:
    __slots__ = ("items",)

    def __init__(self, items):
        self.items = items


class YRange:
    __slots__ = ("begin", "end")

    def __init__(self, begin, end):
        self.begin = begin
        self.end = end


class YMap:
    __slots__ = ("entries",)

    def __init__(self):
        self.entries = []   # [key, value] pairs; enumeration order is unspecified by the language

    def find(self, key):
        for e in self.entries:
            if values_equal(e[0], key):
                return e
        return None


class Cell:
    __slots__ = ("v",)

    def __init__(self, v):
        self.v = v


class YClosure:
    __slots__ = ("fn", "cells", "module")

    def __init__(self, fn, cells, module):
        self.fn = fn
        self.cells = cells
        self.module = module


class YNative:
    __slots__ = ("name", "fn")

    def __init__(self, name, fn):
        self.name = name
        self.fn = fn


class YBound:
    __slots__ = ("receiver", "method")

    def __init__(self, receiver, method):
        self.receiver = receiver
        self.method = method


class YBoundNative:
    __slots__ = ("receiver", "method")

    def __init__(self, receiver, method):
        self.receiver = receiver
        self.method = method


class YIter:
    __slots__ = ("kind", "src", "pos", "step")

    def __init__(self, kind, src):
        self.kind = kind     # 'string', 'tuple', 'vec', 'range'
        self.src = src
        self.pos = 0
        self.step = 1
        if kind == "range":
            self.pos = src.begin
            self.step = 1 if src.begin < src.end else -1
        if kind == "string":
            self.src = src.encode("utf-8")


class YModule:
    __slots__ = ("path", "attrs", "imported")

    def __init__(self, path):
        self.path = path
        self.attrs = {}
        self.imported = False


class YFiber:
    __slots__ = ("closure", "state", "caller", "frames", "thread", "wake", "inbox", "call_arity", "dead")

    def __init__(self, closure):
        self.closure = closure
        self.state = "new"       # new / suspended / running / finished
        self.caller = None
        self.frames = []
        self.thread = None
        self.wake = threading.Semaphore(0)
        self.inbox = None
        self.call_arity = len(closure.fn.params) if closure is not None else 0
        self.dead = False


class Thrown(Exception):
    """a yarel exception in flight; trace = [(frame, module path, function name, line)] innermost first"""

    def __init__(self, value, trace):
        Exception.__init__(self)
        self.value = value
        self.trace = trace


class ReturnSignal(Exception):
    def __init__(self, value):
        Exception.__init__(self)
        self.value = value


class BreakSignal(Exception):
    pass


class ContinueSignal(Exception):
    pass


class Frame:
    __slots__ = ("closure", "cells", "line")

    def __init__(self, closure):
        self.closure = closure
        self.cells = {}
        self.line = closure.fn.line


# ------------------------------------------------------------------------------------- numbers / text

def fmt_num(x):
    """Rust's `{}` for f64: shortest digits that round-trip, positional notation, never an exponent.
    Among equally short candidates Rust takes the one closest to the exact value, an exact tie going
    away from zero (CPython's repr breaks that tie to even)."""
    if x != x:
        return "NaN"
    if x == math.inf:
        return "inf"
    if x == -math.inf:
        return "-inf"
    if x == 0:
        return "-0" if math.copysign(1.0, x) < 0 else "0"
    import decimal
    r = repr(x)
    mant = r.lower().split("e")[0].lstrip("-").replace(".", "").lstrip("0")
    nd = len(mant.rstrip("0")) or 1
    exact = decimal.Decimal(x)
    ctx = decimal.Context(prec=nd, rounding=decimal.ROUND_HALF_UP)
    q = ctx.create_decimal(exact)
    if float(q) != x:
        q = decimal.Decimal(r)
    sign, digits, exp = q.as_tuple()
    digits = "".join(str(d) for d in digits)
    point = len(digits) + exp
    if point <= 0:
        s = "0." + "0" * (-point) + digits
    elif point >= len(digits):
        s = digits + "0" * (point - len(digits))
    else:
        s = digits[:point] + "." + digits[point:]
    if "." in s:
        s = s.rstrip("0").rstrip(".")
    return ("-" if sign else "") + s


NUM_RE = re.compile(r"^[+-]?(?:inf|infinity|nan|(?:[0-9]+\.?[0-9]*|\.[0-9]+)(?:[eE][+-]?[0-9]+)?)$", re.I)


def parse_num(text):
    """Rust's str::parse::<f64> grammar"""
    if not text.isascii() or not NUM_RE.match(text):
        return None
    try:
        return float(text)
    except ValueError:
        return None


def to_i64(x):
    if x != x:
        return 0
    if x >= 9.223372036854775807e18:
        return ISIZE_MAX
    if x <= -9.223372036854775808e18:
        return ISIZE_MIN
    return int(x)


def to_u32(x):
    if x != x or x <= 0:
        return 0
    if x >= 4294967295.0:
        return 4294967295
    return int(x)


def wrap_i64(n):
    n &= (1 << 64) - 1
    if n >= 1 << 63:
        n -= 1 << 64
    return n


def fmod(a, b):
    if b == 0 or a != a or b != b or a in (math.inf, -math.inf):
        return math.nan
    if b in (math.inf, -math.inf):
        return a
    return math.fmod(a, b)


# ------------------------------------------------------------------------------------- equality

def values_equal(a, b, depth=0):
    ta = type(a)
    if ta is float:
        return type(b) is float and a == b
    if ta is bool:
        return type(b) is bool and a == b
    if a is None:
        return b is None
    if ta is str:
        return type(b) is str and a == b
    if ta is YTuple or ta is YVec:
        if type(b) is not ta:
            return False
        if a is b:
            return True
        if len(a.items) != len(b.items):
            return False
        if depth > 150:
            raise ModelUnsupported("comparison too deep")
        for x, y in zip(a.items, b.items):
            if not values_equal(x, y, depth + 1):
                return False
        return True
    if ta is YMap:
        if type(b) is not YMap:
            return False
        if a is b:
            return True
        if len(a.entries) != len(b.entries):
            return False
        if depth > 150:
            raise ModelUnsupported("comparison too deep")
        for k, v in a.entries:
            e = b.find(k)
            if e is None or not values_equal(v, e[1], depth + 1):
                return False
        return True
    if ta is YBoundNative:
        return False
    return a is b


def has_hash(v, lock=None):
    t = type(v)
    if v is None or t in (bool, float, str, YClass, YRange):
        return True
    if t is YTuple:
        if lock is None:
            lock = set()
        if id(v) in lock:
            return True
        lock.add(id(v))
        ok = all([has_hash(x, lock) for x in v.items])
        lock.discard(id(v))
        return ok
    return False


# ------------------------------------------------------------------------------------- resolver

SLOT0 = {"method": "self", "initialiser": "self", "static": "Self", "script": "self", "function": ""}


class FnCtx:
    def __init__(self, fn, parent):
        self.fn = fn
        self.parent = parent
        self.scopes = [{}]
        self.next_slot = 0
        self.live = 0
        self.free = []
        self.free_index = {}
        self.pending = []     # names being declared whose initialiser is being compiled

    def declare(self, name):
        slot = self.next_slot
        self.next_slot += 1
        self.scopes[-1][name] = slot
        return slot

    def lookup_local(self, name):
        for s in reversed(self.scopes):
            if name in s:
                return s[name]
        return None

    def live_locals(self):
        return sum(len(s) for s in self.scopes)


class Resolver:
    """annotates name uses with ('local', slot) | ('up', index) | ('global',) and declarations with
    their slot (None = module global), mimicking single-pass resolution in source order"""

    def __init__(self):
        self.ctx = None

    def function(self, fn):
        ctx = FnCtx(fn, self.ctx)
        self.ctx = ctx
        ctx.declare(SLOT0[fn.kind])
        if fn.kind != "script":
            ctx.scopes.append({})
            params = []
            for p in fn.params:
                if p in ctx.scopes[-1]:
                    raise ModelCompileError("Variable with this name already declared in this scope.", fn.line)
                params.append((p, ctx.declare(p)))
            fn.params = params
        if fn.body is not None:
            for st in fn.body:
                self.stmt(st)
        else:
            self.expr(fn.expr_body)
        fn.free = ctx.free
        fn.nlocals = ctx.next_slot
        self.ctx = ctx.parent

    def receiver_name(self):
        """the receiver of `super.m` is the receiver of the method the expression belongs to: slot 0 of the innermost
        enclosing function that is not a plain function or lambda (captured like any other variable when nested)"""
        c = self.ctx
        while c is not None and c.fn.kind == "function":
            c = c.parent
        return SLOT0[(c or self.ctx).fn.kind]

    def at_global_scope(self):
        return self.ctx.fn.kind == "script" and len(self.ctx.scopes) == 1

    def declare_var(self, name, line):
        if self.at_global_scope():
            return None
        if name in self.ctx.scopes[-1]:
            raise ModelCompileError("Variable with this name already declared in this scope.", line)
        if self.ctx.live_locals() >= 256:
            raise ModelCompileError("Too many variables in function.", line)
        return self.ctx.declare(name)

    def resolve_name(self, name, line=0):
        ctx = self.ctx
        if name in ctx.pending:
            raise ModelCompileError("Cannot read local variable in its own initialiser.", line)
        slot = ctx.lookup_local(name)
        if slot is not None:
            return ("local", slot)
        c = ctx.parent
        while c is not None:
            if name in c.pending:
                raise ModelUnsupported("closure reads a variable inside that variable's initialiser")
            c = c.parent
        r = self.capture(ctx, name)
        if r is not None:
            return ("up", r)
        return ("global",)

    def capture(self, ctx, name):
        parent = ctx.parent
        if parent is None:
            return None
        slot = parent.lookup_local(name)
        if slot is not None:
            key = ("local", slot)
        else:
            up = self.capture(parent, name)
            if up is None:
                return None
            key = ("up", up)
        if key in ctx.free_index:
            return ctx.free_index[key]
        if len(ctx.free) >= 256:
            raise ModelCompileError("Too many closure variables in function.")
        ctx.free.append(key)
        ctx.free_index[key] = len(ctx.free) - 1
        return len(ctx.free) - 1

    def block(self, stmts):
        self.ctx.scopes.append({})
        for st in stmts:
            self.stmt(st)
        self.ctx.scopes.pop()

    def stmt(self, n):
        k = n.k
        ctx = self.ctx
        if k == "expr":
            self.expr(n.a)
        elif k == "var":
            if self.at_global_scope():
                if n.b is not None:
                    self.expr(n.b)
                n.d = None
            else:
                if n.a in ctx.scopes[-1]:
                    raise ModelCompileError("Variable with this name already declared in this scope.", n.line)
                if ctx.live_locals() >= 256:
                    raise ModelCompileError("Too many variables in function.", n.line)
                if n.b is not None:
                    ctx.pending.append(n.a)
                    try:
                        self.expr(n.b)
                    finally:
                        ctx.pending.pop()
                n.d = ctx.declare(n.a)
        elif k == "fndecl":
            n.d = self.declare_var(n.a, n.line)
            self.function(n.b)
        elif k == "class":
            n.slot = self.declare_var(n.name, n.line)
            if n.super_name is not None:
                n.super_ref = Node("name", n.line, n.super_name)
                self.expr(n.super_ref)
                ctx.scopes.append({})
                n.super_slot = ctx.declare("super")
            n.self_ref = Node("name", n.line, n.name)
            self.expr(n.self_ref)
            for (_mname, _kind, fn) in n.methods:
                self.function(fn)
            if n.super_name is not None:
                ctx.scopes.pop()
        elif k == "import":
            n.d = self.declare_var(n.b, n.line)
        elif k == "for":
            ctx.scopes.append({})
            if n.a in ctx.scopes[-1]:
                raise ModelCompileError("Variable with this name already declared in this scope.", n.line)
            ctx.pending.append(n.a)
            try:
                self.expr(n.b)
            finally:
                ctx.pending.pop()
            n.d = ctx.declare(n.a)
            ctx.declare("... temp-iter-var ...")
            self.block(n.c)
            ctx.scopes.pop()
        elif k == "if":
            self.expr(n.a)
            self.block(n.b)
            if n.c is not None:
                if n.c[0] == "elif":
                    self.stmt(n.c[1])
                else:
                    self.block(n.c[1])
        elif k == "while":
            self.expr(n.a)
            self.block(n.b)
        elif k == "block":
            self.block(n.a)
        elif k == "return":
            if n.a is not None:
                self.expr(n.a)
        elif k == "throw":
            self.expr(n.a)
        elif k == "try":
            self.block(n.a)
            if n.c is not None:
                ctx.scopes.append({})
                n.b = (n.b, ctx.declare(n.b))
                for st in n.c:
                    self.stmt(st)
                ctx.scopes.pop()
            if n.d is not None:
                self.block(n.d)
        elif k in ("break", "continue"):
            pass
        else:
            raise ModelUnsupported("stmt " + k)

    def expr(self, n):
        k = n.k
        if k in ("num", "str", "lit"):
            return
        if k == "name":
            n.d = self.resolve_name(n.a, n.line)
        elif k == "capself":
            n.d = self.resolve_name("Self", n.line)
        elif k == "assign":
            n.d = self.resolve_name(n.a, n.line)
            self.expr(n.b)
        elif k == "opassign":
            n.d = self.resolve_name(n.a, n.line)
            self.expr(n.c)
        elif k == "interp":
            for p in n.a:
                if not isinstance(p, str):
                    self.expr(p)
        elif k == "unary":
            self.expr(n.b)
        elif k == "binary":
            self.expr(n.b)
            self.expr(n.c)
        elif k in ("and", "or", "range"):
            self.expr(n.a)
            self.expr(n.b)
        elif k == "call":
            self.expr(n.a)
            for a in n.b:
                self.expr(a)
        elif k == "invoke":
            self.expr(n.a)
            for a in n.c:
                self.expr(a)
        elif k == "getprop":
            self.expr(n.a)
        elif k == "setprop":
            self.expr(n.a)
            self.expr(n.c)
        elif k == "oppropassign":
            self.expr(n.a)
            self.expr(n.d)
        elif k == "getitem":
            self.expr(n.a)
            self.expr(n.b)
        elif k == "setitem":
            self.expr(n.a)
            self.expr(n.b)
            self.expr(n.c)
        elif k in ("vec", "tuple"):
            for a in n.a:
                self.expr(a)
        elif k == "map":
            for kk, vv in n.a:
                self.expr(kk)
                self.expr(vv)
        elif k == "lambda":
            self.function(n.a)
        elif k == "superget":
            recv = self.resolve_name(self.receiver_name(), n.line)
            n.d = (recv, self.resolve_name("super", n.line))
        elif k == "superinvoke":
            recv = self.resolve_name(self.receiver_name(), n.line)
            for a in n.b:
                self.expr(a)
            n.d = (recv, self.resolve_name("super", n.line))
        else:
            raise ModelUnsupported("expr " + k)


def compile_source(src):
    fn = parse(src)
    Resolver().function(fn)
    return fn


# ------------------------------------------------------------------------------------- interpreter

ERROR_CLASSES = ["RuntimeError", "AttributeError", "IndexError", "ImportError", "NameError", "TypeError", "ValueError"]


class Interp:
    def __init__(self, loader=None, budget=400000, host_natives=False):
        self.loader = loader or (lambda path: None)
        self.budget = budget
        self.steps = 0
        self.out = []
        self.modules = {}
        self.range_cache = []
        self.fiber = None
        self.terminated = False
        self.final = None
        self.all_fibers = []
        self.host_natives = host_natives
        self.host_globals = {}
        self.loads = []
        self.lock = threading.Lock()
        self.bootstrap()

    # ------------------------------------------------------------------ bootstrap
    def bootstrap(self):
        self.c_object = YClass("Object", None, None)
        self.c_type = YClass("Type", None, None)
        self.c_type.metaclass = self.c_type
        self.c_type.superclass = self.c_object
        self.c_object.metaclass = self.c_type
        self.c_object.methods["derives"] = YNative("derives", n_derives)
        self.c_type.methods = dict(self.c_object.methods)
        self.classes = {"Object": self.c_object, "Type": self.c_type}

        def native_class(name, methods, metaclass=None, superclass=None, statics=None):
            meta = metaclass or self.c_type
            if statics is not None:
                meta = YClass(name + "Class", self.c_type, self.c_object,
                              {k: YNative(k, f) for k, f in statics.items()})
                if statics and name == "String":
                    # the String metaclass table is replaced wholesale: it holds only the statics
                    meta.methods = {k: YNative(k, f) for k, f in statics.items()}
            c = YClass(name, meta, superclass or self.c_object, {k: YNative(k, f) for k, f in methods.items()})
            self.classes[name] = c
            return c

        self.c_nil = native_class("Nil", {})
        self.c_bool = native_class("Bool", {})
        self.c_bool.name = "Boolean"     # the class is called Boolean, the global that holds it Bool
        self.c_num = native_class("Num", {})
        self.c_func = native_class("Func", {})
        self.c_builtin = native_class("BuiltIn", {})
        self.c_method = native_class("Method", {})
        self.c_builtin_method = native_class("BuiltInMethod", {})
        self.c_string = native_class("String", STRING_METHODS, statics=STRING_STATICS)
        # core.yl runs as a script in module main; its classes stay there as globals
        self.main = YModule("main")
        self.modules["main"] = self.main
        self.seed_builtins(self.main, core_ready=False)
        core = compile_source(CORE_YL)
        self.run_function(core, self.main)
        self.out = []
        self.core_names = ["Error", "StopIter", "Iter", "MapIter", "FilterIter"] + ERROR_CLASSES
        self.core_globals = {name: self.main.attrs[name] for name in self.core_names}
        self.classes.update(self.core_globals)
        self.c_iter = self.classes["Iter"]
        self.c_stop_iter = self.classes["StopIter"]
        self.c_tuple = native_class("Tuple", TUPLE_METHODS)
        def it_next(kind, label):
            return typed(label, lambda r: type(r) is YIter and r.kind == kind, {"next": n_iter_next}, {"next": 0})
        self.c_tuple_iter = native_class("TupleIter", it_next("tuple", "TupleIter"), superclass=self.c_iter)
        self.c_vec = native_class("Vec", VEC_METHODS)
        self.c_vec_iter = native_class("VecIter", it_next("vec", "VecIter"), superclass=self.c_iter)
        self.c_range = native_class("Range", typed("Range", lambda r: type(r) is YRange, {"iter": n_range_iter}, {"iter": 0}))
        self.c_range_iter = native_class("RangeIter", it_next("range", "RangeIter"), superclass=self.c_iter)
        self.c_hash_map = native_class("HashMap", MAP_METHODS)
        self.c_module = native_class("Module", {})
        self.c_string_iter = native_class("StringIter", it_next("string", "StringIter"), superclass=self.c_iter)
        fiber_meta = YClass("FiberClass", self.c_type, self.c_object,
                            {"yield": YNative("yield", n_fiber_yield), "new": YNative("new", n_fiber_new)})
        self.c_fiber = YClass("Fiber", fiber_meta, self.c_object,
                              {k: YNative(k, f) for k, f in typed("Fiber", lambda r: type(r) is YFiber, {
                                  "call": n_fiber_call, "has_finished": n_fiber_has_finished}, {"call": None, "has_finished": 0}).items()})
        self.classes["Fiber"] = self.c_fiber
        self.seed_builtins(self.main)

    def seed_builtins(self, module, core_ready=True):
        a = module.attrs
        a["clock"] = YNative("clock", n_clock)
        a["type"] = YNative("type", n_type)
        a["print"] = YNative("print", n_print)
        names = ["Type", "Object", "Nil", "Bool", "Num", "Func", "BuiltIn", "Method", "BuiltInMethod", "String"]
        if core_ready:
            names += ["Iter", "MapIter", "FilterIter", "Tuple", "Vec", "Range", "HashMap", "Fiber", "Error", "StopIter"]
            names += ERROR_CLASSES
        for n in names:
            a[n] = self.classes[n]
        if self.host_natives and module.path == "main":
            a["host_fail"] = YNative("host_fail", n_host_fail)
            a["host_echo"] = YNative("host_echo", n_host_echo)
            a["host_str"] = YNative("host_str", n_host_str)

    def reset(self):
        """Vm::reset(): only module main survives, with empty globals re-seeded with the built-ins"""
        self.modules = {"main": self.main}
        self.main.attrs = dict(self.core_globals)   # indistinguishable from a new interpreter (C15)
        self.seed_builtins(self.main)

    # ------------------------------------------------------------------ running
    def run_function(self, fn, module):
        """run a compiled script function as module code on a fresh root fiber (Vm::execute)"""
        clo = YClosure(fn, [], module)
        root = YFiber(None)
        root.state = "running"
        root.thread = threading.current_thread()
        self.fiber = root
        self.root = root
        self.terminated = False
        self.final = None
        frame = Frame(clo)
        frame.cells[0] = Cell(clo)
        root.frames.append(frame)
        try:
            try:
                self.exec_block_noscope(fn.body, frame)
            except Thrown as t:
                return self.uncaught(t)
            except FiberKill:
                return self.final
            finally:
                self.kill_fibers()
        finally:
            root.frames = []
        return ("ok",)

    def kill_fibers(self, everything=False):
        """end of a run: the fiber that failed and every fiber up the call chain that was waiting for it end up
        finished (their threads are released); a fiber that is cleanly suspended stays parked, so that a later run on
        this interpreter can resume it"""
        self.terminated = True
        keep, victims = [], []
        for fb in self.all_fibers:
            alive = fb.thread is not None and fb.thread is not threading.current_thread() and fb.thread.is_alive()
            if not alive:
                if fb.state != "finished":
                    fb.state = "finished"
                    fb.caller = None
                continue
            if not everything and fb.state == "suspended" and fb.caller is None:
                keep.append(fb)
            else:
                victims.append(fb)
        for fb in victims:
            fb.state = "finished"
            fb.caller = None
            fb.wake.release()
        for fb in victims:
            fb.thread.join(timeout=5)
        self.all_fibers = keep
        self.terminated = False

    # ------------------------------------------------------------------ host API (embedding program)
    def host_module(self, path):
        """Vm::module(): find or create the registry entry (a module the host creates is registered but not imported)"""
        mod = self.modules.get(path)
        if mod is None:
            mod = YModule(path)
            self.modules[path] = mod
        return mod

    def host_define_native(self, module, name):
        self.host_module(module).attrs[name] = YNative(name, n_host_echo)

    def host_global_text(self, module, name):
        mod = self.host_module(module)
        if name not in mod.attrs:
            return "<none>"
        return self.display(mod.attrs[name])

    def shutdown(self):
        self.kill_fibers(everything=True)

    def interpret(self, src):
        """one snippet on this interpreter (vm::interpret). Returns ('ok',) |
        ('compile_error', message|None, line|None) | ('error', class name, [messages]) | ('budget',)"""
        try:
            fn = compile_source(src)
        except ModelCompileError as e:
            return ("compile_error", e.message, e.line)
        result = {}

        def body():
            try:
                result["r"] = self.run_function(fn, self.main)
            except ModelBudget:
                result["r"] = ("budget",)
            except ModelUnsupported as e:
                result["r"] = ("unsupported", str(e))
            except RecursionError:
                result["r"] = ("unsupported", "python recursion limit")

        t = threading.Thread(target=body)
        t.start()
        t.join()
        return result.get("r", ("unsupported", "no result"))

    def uncaught(self, t):
        v = t.value
        if isinstance(v, YInstance):
            name = v.cls.name
            ctx = v.fields.get("context", v)
            kind = name if name in ERROR_CLASSES else "RuntimeError"
            text = "Unhandled %s: %s" % (name, self.display(ctx))
        else:
            kind = "RuntimeError"
            text = "Unhandled exception: %s" % self.display(v)
        msgs = split_lines(text)
        for (_f, mod, fname, line) in t.trace:
            if fname == "":
                msgs.append("[module \"%s\", line %d] in script" % (mod, line))
            else:
                msgs.append("[module \"%s\", line %d] in %s()" % (mod, line, fname))
        return ("error", kind, msgs)

    def tick(self):
        self.steps += 1
        if self.steps > self.budget:
            raise ModelBudget()

    # ------------------------------------------------------------------ errors
    def throw(self, cls_name, message):
        inst = YInstance(self.classes[cls_name])
        inst.fields["context"] = message
        raise Thrown(inst, self.snapshot_trace())

    def snapshot_trace(self):
        out = []
        for f in reversed(self.fiber.frames):
            out.append((f, f.closure.module.path, f.closure.fn.name, f.line))
        return out

    # ------------------------------------------------------------------ statements
    def exec_block(self, stmts, frame):
        for st in stmts:
            self.exec_stmt(st, frame)

    exec_block_noscope = exec_block

    def exec_stmt(self, n, frame):
        self.tick()
        k = n.k
        frame.line = n.line
        if k == "expr":
            self.eval(n.a, frame)
        elif k == "var":
            v = self.eval(n.b, frame) if n.b is not None else None
            frame.line = n.line
            if n.d is None:
                frame.closure.module.attrs[n.a] = v
            else:
                frame.cells[n.d] = Cell(v)
        elif k == "fndecl":
            if n.d is not None:
                cell = Cell(None)
                frame.cells[n.d] = cell
                cell.v = self.make_closure(n.b, frame)
            else:
                frame.closure.module.attrs[n.a] = self.make_closure(n.b, frame)
        elif k == "if":
            if truthy(self.eval(n.a, frame)):
                self.exec_block(n.b, frame)
            elif n.c is not None:
                if n.c[0] == "elif":
                    self.exec_stmt(n.c[1], frame)
                else:
                    self.exec_block(n.c[1], frame)
        elif k == "while":
            while True:
                frame.line = n.line
                if not truthy(self.eval(n.a, frame)):
                    break
                try:
                    self.exec_block(n.b, frame)
                except BreakSignal:
                    break
                except ContinueSignal:
                    pass
                self.tick()
        elif k == "for":
            self.exec_for(n, frame)
        elif k == "block":
            self.exec_block(n.a, frame)
        elif k == "return":
            v = self.eval(n.a, frame) if n.a is not None else NO_VALUE
            raise ReturnSignal(v)
        elif k == "break":
            raise BreakSignal()
        elif k == "continue":
            raise ContinueSignal()
        elif k == "throw":
            v = self.eval(n.a, frame)
            frame.line = n.line
            raise Thrown(v, self.snapshot_trace())
        elif k == "try":
            self.exec_try(n, frame)
        elif k == "class":
            self.exec_class(n, frame)
        elif k == "import":
            self.exec_import(n, frame)
        else:
            raise ModelUnsupported("stmt " + k)

    def exec_for(self, n, frame):
        cell = Cell(None)
        frame.cells[n.d] = cell
        iterable = self.eval(n.b, frame)
        it = self.invoke(iterable, "iter", [], frame)
        while True:
            self.tick()
            frame.line = n.line
            v = self.invoke(it, "next", [], frame)
            cell.v = v
            if isinstance(v, YInstance) and v.cls is self.c_stop_iter:
                break
            try:
                self.exec_block(n.c, frame)
            except BreakSignal:
                break
            except ContinueSignal:
                pass

    def exec_try(self, n, frame):
        pending = None
        try:
            try:
                self.exec_block(n.a, frame)
            except Thrown as t:
                if n.c is None:
                    raise
                frame.cells[n.b[1]] = Cell(t.value)
                self.exec_block(n.c, frame)
        except Thrown as t:
            pending = t
            # passing a finally block: the frames above the handling function are gone and that
            # function is now "at" the call that led there
            idx = None
            if n.d is None:
                raise
            for i, e in enumerate(t.trace):
                if e[0] is frame:
                    idx = i
                    break
            if idx is not None:
                t.trace = t.trace[idx:]
        except (ReturnSignal, BreakSignal, ContinueSignal) as s:
            pending = s
        if n.d is not None:
            self.exec_block(n.d, frame)
        if pending is not None:
            raise pending

    def exec_class(self, n, frame):
        module = frame.closure.module
        # the name is bound to nil first (global) / a fresh variable (local)
        if n.slot is None:
            module.attrs[n.name] = None
        else:
            frame.cells[n.slot] = Cell(None)
        meta = YClass(n.name + "Class", self.c_type, self.c_object)
        cls = YClass(n.name, meta, self.c_object)
        if n.super_name is not None:
            sup = self.eval(n.super_ref, frame)
            frame.cells[n.super_slot] = Cell(sup)
            self.eval(n.self_ref, frame)
            if not isinstance(sup, YClass):
                frame.line = n.super_line or n.line
                self.throw("RuntimeError", "Superclass must be a class.")
            cls.superclass = sup
            cls.methods.update(sup.methods)
        else:
            self.eval(n.self_ref, frame)
        if n.ctor_name is not None:
            fn = FnDecl(n.ctor_name, [], [], None, "initialiser", n.line)
            Resolver().function(fn)
            clo = YClosure(fn, [], module)
            cls.methods[n.ctor_name] = clo
            meta.methods[n.ctor_name] = clo
        for (mname, kind, fn) in n.methods:
            clo = self.make_closure(fn, frame)
            cls.methods[mname] = clo
            if kind == "method":
                meta.methods.pop(mname, None)
            else:
                meta.methods[mname] = clo
        if n.slot is None:
            self.assign_name(n.self_ref, cls, frame)
        else:
            frame.cells[n.slot].v = cls

    def exec_import(self, n, frame):
        path = n.a
        frame.line = n.line
        mod = self.modules.get(path)
        if mod is not None:
            if not mod.imported:
                self.throw("ImportError", "Circular dependency encountered when importing module '%s'." % path)
        else:
            self.loads.append(path)
            src = self.loader(path)
            if src is None:
                self.throw("ImportError", "Unable to read file '%s.yl' (file not found)." % path)
            try:
                fn = compile_source(src)
            except ModelCompileError as e:
                # the compiler's own messages are quoted in the error; the model only predicts the head
                inst = YInstance(self.classes["ImportError"])
                inst.fields["context"] = CompileMessages("Error compiling module:", e)
                raise Thrown(inst, self.snapshot_trace())
            mod = YModule(path)
            self.modules[path] = mod
            self.seed_builtins(mod)
            fn.name = ""
            clo = YClosure(fn, [], mod)
            self.call_closure(clo, [], clo, frame, module_body=True)
            mod.imported = True
        if n.d is None:
            frame.closure.module.attrs[n.b] = mod
        else:
            frame.cells[n.d] = Cell(mod)

    # ------------------------------------------------------------------ closures and calls
    def make_closure(self, fn, frame):
        cells = []
        for key in fn.free:
            if key[0] == "local":
                cells.append(frame.cells[key[1]])
            else:
                cells.append(frame.closure.cells[key[1]])
        return YClosure(fn, cells, frame.closure.module)

    def call_value(self, callee, args, frame):
        t = type(callee)
        if t is YClosure:
            return self.call_closure(callee, args, callee, frame)
        if t is YNative:
            return callee.fn(self, callee, args, frame)
        if t is YBound:
            return self.call_closure(callee.method, args, callee.receiver, frame)
        if t is YBoundNative:
            return callee.method.fn(self, callee.receiver, args, frame)
        self.throw("TypeError", "Can only call functions and methods.")

    def call_closure(self, clo, args, receiver, frame, module_body=False):
        fn = clo.fn
        fiber = self.fiber
        if not module_body and len(args) != len(fn.params):
            self.throw("TypeError", "Expected %d arguments but found %d." % (len(fn.params), len(args)))
        if len(fiber.frames) >= FRAMES_MAX:
            self.throw("IndexError", "Stack overflow.")
        self.tick()
        nf = Frame(clo)
        if fn.kind == "initialiser" and isinstance(receiver, YClass):
            receiver = YInstance(receiver)
        nf.cells[0] = Cell(receiver)
        if not module_body:
            for (pname, slot), a in zip(fn.params, args):
                nf.cells[slot] = Cell(a)
        fiber.frames.append(nf)
        try:
            if fn.body is not None:
                try:
                    self.exec_block(fn.body, nf)
                except ReturnSignal as r:
                    if fn.kind == "initialiser" or r.value is NO_VALUE:
                        return nf.cells[0].v if fn.kind == "initialiser" else None
                    return r.value
                return nf.cells[0].v if fn.kind == "initialiser" else None
            else:
                return self.eval(fn.expr_body, nf)
        finally:
            fiber.frames.pop()

    def class_of(self, v):
        t = type(v)
        if t is float:
            return self.c_num
        if t is bool:
            return self.c_bool
        if v is None:
            return self.c_nil
        if t is str:
            return self.c_string
        if t is YInstance:
            return v.cls
        if t is YClass:
            return v.metaclass
        if t is YVec:
            return self.c_vec
        if t is YTuple:
            return self.c_tuple
        if t is YMap:
            return self.c_hash_map
        if t is YRange:
            return self.c_range
        if t is YClosure:
            return self.c_func
        if t is YNative:
            return self.c_builtin
        if t is YBound:
            return self.c_method
        if t is YBoundNative:
            return self.c_builtin_method
        if t is YIter:
            return {"string": self.c_string_iter, "tuple": self.c_tuple_iter, "vec": self.c_vec_iter,
                    "range": self.c_range_iter}[v.kind]
        if t is YModule:
            return self.c_module
        if t is YFiber:
            return self.c_fiber
        raise ModelUnsupported("class_of")

    def invoke(self, recv, name, args, frame):
        t = type(recv)
        if t is YInstance:
            if name in recv.fields:
                return self.call_value(recv.fields[name], args, frame)
            cls = recv.cls
        elif t is YModule:
            if name in recv.attrs:
                return self.call_value(recv.attrs[name], args, frame)
            cls = self.c_module
        else:
            cls = self.class_of(recv)
        return self.invoke_from_class(cls, recv, name, args, frame)

    def invoke_from_class(self, cls, recv, name, args, frame):
        m = cls.methods.get(name)
        if m is None:
            self.throw("AttributeError", "Undefined property '%s'." % name)
        if type(m) is YClosure:
            return self.call_closure(m, args, recv, frame)
        return m.fn(self, recv, args, frame)

    def bind_method(self, cls, recv, name):
        m = cls.methods.get(name)
        if m is None:
            self.throw("AttributeError", "Undefined property '%s'." % name)
        if type(m) is YClosure:
            return YBound(recv, m)
        return YBoundNative(recv, m)

    def get_property(self, recv, name):
        t = type(recv)
        if t is YInstance and name in recv.fields:
            return recv.fields[name]
        if t is YModule and name in recv.attrs:
            return recv.attrs[name]
        return self.bind_method(self.class_of(recv), recv, name)

    def set_property(self, recv, name, value):
        t = type(recv)
        if t is YModule:
            recv.attrs[name] = value
        elif t is YInstance:
            recv.fields[name] = value
        else:
            self.throw("AttributeError", "Only instances have fields.")

    # ------------------------------------------------------------------ variables
    def load_name(self, n, frame):
        d = n.d
        if d[0] == "local":
            return frame.cells[d[1]].v
        if d[0] == "up":
            return frame.closure.cells[d[1]].v
        attrs = frame.closure.module.attrs
        name = n.a if n.k != "capself" else "Self"
        if name in attrs:
            return attrs[name]
        frame.line = n.line
        self.throw("NameError", "Undefined variable '%s'." % name)

    def assign_name(self, n, value, frame):
        d = n.d
        if d[0] == "local":
            frame.cells[d[1]].v = value
        elif d[0] == "up":
            frame.closure.cells[d[1]].v = value
        else:
            attrs = frame.closure.module.attrs
            if n.a not in attrs:
                frame.line = n.line
                self.throw("NameError", "Undefined variable '%s'." % n.a)
            attrs[n.a] = value

    def load_ref(self, d, name, frame, line):
        if d[0] == "local":
            return frame.cells[d[1]].v
        if d[0] == "up":
            return frame.closure.cells[d[1]].v
        attrs = frame.closure.module.attrs
        if name in attrs:
            return attrs[name]
        frame.line = line
        self.throw("NameError", "Undefined variable '%s'." % name)

    # ------------------------------------------------------------------ expressions
    def eval(self, n, frame):
        k = n.k
        if k == "num" or k == "str" or k == "lit":
            return n.a
        if k == "name":
            return self.load_name(n, frame)
        if k == "binary":
            a = self.eval(n.b, frame)
            b = self.eval(n.c, frame)
            frame.line = n.line
            return self.binary(n.a, a, b)
        if k == "call":
            callee = self.eval(n.a, frame)
            args = [self.eval(a, frame) for a in n.b]
            frame.line = n.line
            return self.call_value(callee, args, frame)
        if k == "invoke":
            recv = self.eval(n.a, frame)
            args = [self.eval(a, frame) for a in n.c]
            frame.line = n.line
            return self.invoke(recv, n.b, args, frame)
        if k == "getprop":
            recv = self.eval(n.a, frame)
            frame.line = n.line
            return self.get_property(recv, n.b)
        if k == "assign":
            v = self.eval(n.b, frame)
            self.assign_name(n, v, frame)
            return v
        if k == "opassign":
            cur = self.load_name(n, frame)
            rhs = self.eval(n.c, frame)
            frame.line = n.line
            v = self.binary(n.b, cur, rhs)
            self.assign_name(n, v, frame)
            return v
        if k == "setprop":
            recv = self.eval(n.a, frame)
            v = self.eval(n.c, frame)
            frame.line = n.line
            self.set_property(recv, n.b, v)
            return v
        if k == "oppropassign":
            recv = self.eval(n.a, frame)
            frame.line = n.line
            cur = self.get_property(recv, n.b)
            rhs = self.eval(n.d, frame)
            frame.line = n.line
            v = self.binary(n.c, cur, rhs)
            self.set_property(recv, n.b, v)
            return v
        if k == "and":
            a = self.eval(n.a, frame)
            if not truthy(a):
                return a
            return self.eval(n.b, frame)
        if k == "or":
            a = self.eval(n.a, frame)
            if truthy(a):
                return a
            return self.eval(n.b, frame)
        if k == "unary":
            v = self.eval(n.b, frame)
            frame.line = n.line
            op = n.a
            if op == "!":
                return not truthy(v)
            if type(v) is not float:
                self.throw("TypeError", "Unary operand must be a number.")
            if op == "-":
                return -v
            return float(wrap_i64(~to_i64(v)))
        if k == "getitem":
            target = self.eval(n.a, frame)
            idx = self.eval(n.b, frame)
            frame.line = n.line
            return self.get_item(target, idx)
        if k == "setitem":
            target = self.eval(n.a, frame)
            idx = self.eval(n.b, frame)
            v = self.eval(n.c, frame)
            frame.line = n.line
            if type(target) is not YVec:
                self.throw("TypeError", "Only Vec objects are index-assignable.")
            i = self.bounded_index(idx, len(target.items), "Vec")
            target.items[i] = v
            return None
        if k == "vec":
            items = [self.eval(a, frame) for a in n.a]
            return YVec(items)
        if k == "tuple":
            items = [self.eval(a, frame) for a in n.a]
            return YTuple(items)
        if k == "map":
            pairs = [(self.eval(kk, frame), self.eval(vv, frame)) for kk, vv in n.a]
            frame.line = n.line
            m = YMap()
            for kk, vv in pairs:
                if not has_hash(kk):
                    self.throw("ValueError", "Cannot use unhashable value '%s' as HashMap key." % self.display(kk))
                e = m.find(kk)
                if e is not None:
                    e[1] = vv
                else:
                    m.entries.append([kk, vv])
            return m
        if k == "range":
            a = self.eval(n.a, frame)
            b = self.eval(n.b, frame)
            frame.line = n.line
            end = self.validate_integer(b)
            begin = self.validate_integer(a)
            return self.build_range(begin, end)
        if k == "interp":
            out = []
            for p in n.a:
                if isinstance(p, str):
                    out.append(p)
                else:
                    v = self.eval(p, frame)
                    out.append(v if type(v) is str else self.display(v))
            return "".join(out)
        if k == "lambda":
            return self.make_closure(n.a, frame)
        if k == "capself":
            v = self.load_name(n, frame)
            if type(v) is YClass:
                return v
            if type(v) is YInstance:
                return v.cls
            return self.class_of(v)
        if k == "superget":
            recv = self.load_ref(n.d[0], "self", frame, n.line)
            sup = self.load_ref(n.d[1], "super", frame, n.line)
            frame.line = n.line
            return self.bind_method(sup, recv, n.a)
        if k == "superinvoke":
            recv = self.load_ref(n.d[0], "self", frame, n.line)
            args = [self.eval(a, frame) for a in n.b]
            sup = self.load_ref(n.d[1], "super", frame, n.line)
            frame.line = n.line
            return self.invoke_from_class(sup, recv, n.a, args, frame)
        raise ModelUnsupported("expr " + k)

    def binary(self, op, a, b):
        if op == "==":
            return values_equal(a, b)
        if op == "!=":
            return not values_equal(a, b)
        if op == "+":
            if type(a) is float and type(b) is float:
                return a + b
            if type(a) is str and type(b) is str:
                if len(a) + len(b) > 200000:
                    raise ModelUnsupported("string too long")
                return a + b
            self.throw("TypeError", "Binary operands must be two numbers or two strings.")
        if type(a) is not float or type(b) is not float:
            self.throw("TypeError", "Binary operands must both be numbers.")
        if op == "-":
            return a - b
        if op == "*":
            return a * b
        if op == "/":
            if b == 0:
                if a == 0 or a != a:
                    return math.nan
                return math.copysign(math.inf, a) * math.copysign(1.0, b)
            return a / b
        if op == "%":
            return fmod(a, b)
        if op == "<":
            return a < b
        if op == ">":
            return a > b
        if op == "<=":
            return not (a > b)
        if op == ">=":
            return not (a < b)
        if op == "&":
            return float(to_i64(a) & to_i64(b))
        if op == "|":
            return float(to_i64(a) | to_i64(b))
        if op == "^":
            return float(to_i64(a) ^ to_i64(b))
        if op == "<<":
            s = to_u32(b)
            if s >= 64:
                return 0.0
            return float(wrap_i64(to_i64(a) << s))
        if op == ">>":
            s = to_u32(b)
            if s >= 64:
                return 0.0
            return float(to_i64(a) >> s)
        raise ModelUnsupported("binary " + op)

    # ------------------------------------------------------------------ indexing
    def validate_integer(self, v):
        if type(v) is not float:
            self.throw("TypeError", "Expected an integer value but found '%s'." % self.display(v))
        if v != v or (v not in (math.inf, -math.inf) and math.trunc(v) != v):
            self.throw("ValueError", "Expected an integer value but found '%s'." % self.display(v))
        return to_i64(v)

    def bounded_index(self, v, bound, kind):
        i = self.validate_integer(v)
        if i < 0:
            i += bound
        if i < 0 or i >= bound:
            self.throw("IndexError", "%s index out of bounds." % kind)
        return i

    def bounded_range(self, r, limit, kind):
        begin = r.begin + limit if r.begin < 0 else r.begin
        if begin < 0 or begin >= limit:
            self.throw("IndexError", "%s slice start out of range." % kind)
        end = r.end + limit if r.end < 0 else r.end
        if end < 0 or end > limit:
            self.throw("IndexError", "%s slice end out of range." % kind)
        return begin, (end if end >= begin else begin)

    def get_item(self, target, idx):
        t = type(target)
        if t is str:
            b = target.encode("utf-8")
            n = len(b)
            if type(idx) is float:
                i = self.bounded_index(idx, n, "String")
                if not is_boundary(b, i):
                    self.throw("IndexError", "Provided string index is not on a character boundary.")
                j = i + 1
                while j <= n and not is_boundary(b, j):
                    j += 1
                return b[i:j].decode("utf-8")
            if type(idx) is YRange:
                i, j = self.bounded_range(idx, n, "String")
                if not is_boundary(b, i):
                    self.throw("IndexError", "Provided string slice start is not on a character boundary.")
                if not is_boundary(b, j):
                    self.throw("IndexError", "Provided string slice end is not on a character boundary.")
                return b[i:j].decode("utf-8")
            self.throw("TypeError", "Expected an integer or range.")
        if t is YTuple or t is YVec:
            kind = "Tuple" if t is YTuple else "Vec"
            if type(idx) is float:
                return target.items[self.bounded_index(idx, len(target.items), kind)]
            if type(idx) is YRange:
                i, j = self.bounded_range(idx, len(target.items), kind)
                return t(list(target.items[i:j]))
            self.throw("TypeError", "Expected an integer or range.")
        self.throw("TypeError", "Value '%s' is not indexable." % self.display(target))

    def build_range(self, begin, end):
        for r in self.range_cache:
            if r.begin == begin and r.end == end:
                return r
        r = YRange(begin, end)
        if len(self.range_cache) >= RANGE_CACHE:
            self.range_cache.pop(0)
        self.range_cache.append(r)
        return r

    # ------------------------------------------------------------------ display
    def display(self, v, lock=None):
        t = type(v)
        if t is str:
            return v
        if t is float:
            return fmt_num(v)
        if v is None:
            return "nil"
        if t is bool:
            return "true" if v else "false"
        if lock is None:
            lock = set()
        if t is YVec:
            if id(v) in lock:
                return "[...]"
            lock.add(id(v))
            s = "[" + ", ".join([self.display(x, lock) for x in v.items]) + "]"
            lock.discard(id(v))
            return s
        if t is YTuple:
            if id(v) in lock:
                return "(...)"
            lock.add(id(v))
            if len(v.items) == 1:
                s = "(" + self.display(v.items[0], lock) + ",)"
            else:
                s = "(" + ", ".join([self.display(x, lock) for x in v.items]) + ")"
            lock.discard(id(v))
            return s
        if t is YMap:
            if id(v) in lock:
                return "{...}"
            lock.add(id(v))
            s = "{" + ", ".join(["%s: %s" % (self.display(k, lock), self.display(x, lock)) for k, x in v.entries]) + "}"
            lock.discard(id(v))
            return s
        if t is YRange:
            return "Range(%d, %d)" % (v.begin, v.end)
        if t is YClosure:
            return "<fn %s @ %s>" % (v.fn.name, ADDR) if v.fn.name else "<script @ %s>" % ADDR
        if t is YNative:
            return "<built-in fn %s>" % v.name
        if t is YBound:
            return "<method %s on %s @ %s>" % (v.method.fn.name, self.display(v.receiver, lock), ADDR)
        if t is YBoundNative:
            return "<built-in method %s on %s @ %s>" % (v.method.name, self.display(v.receiver, lock), ADDR)
        if t is YClass:
            return "<class %s>" % v.name
        if t is YInstance:
            return "<%s instance @ %s>" % (v.cls.name, ADDR)
        if t is YIter:
            if v.kind == "string":
                return "ObjStringIter instance"
            if v.kind == "range":
                return "ObjRangeIter instance"
            if v.kind == "vec":
                return "<ObjVecIter instance @ %s>" % ADDR
            return "<ObjTupleIter instance @ %s>" % ADDR
        if t is YModule:
            return "<module \"%s\">" % v.path
        if t is YFiber:
            return "<fiber @ %s>" % ADDR
        if t is CompileMessages:
            return v.head
        raise ModelUnsupported("display")

    # ------------------------------------------------------------------ fibers
    def switch_to(self, target, payload):
        cur = self.fiber
        self.fiber = target
        target.inbox = payload
        if target.thread is None:
            target.thread = threading.Thread(target=self.fiber_main, args=(target,), daemon=True)
            self.all_fibers.append(target)
            target.thread.start()
        else:
            target.wake.release()
        cur.wake.acquire()
        if self.terminated:
            raise FiberKill()
        return cur.inbox

    def fiber_main(self, fb):
        try:
            self.fiber_main_inner(fb)
        except FiberKill:
            pass
        except BaseException as e:   # never leave the caller blocked
            self.final = ("unsupported", "model fiber crashed: %r" % (e,))
            self.finish_all()

    def fiber_main_inner(self, fb):
        try:
            clo = fb.closure
            args = [fb.inbox] if len(clo.fn.params) == 1 else []
            try:
                result = self.call_closure(clo, args, clo, None)
            except Thrown as t:
                self.final = self.uncaught(t)
                self.finish_all()
                return
            except ModelBudget:
                self.final = ("budget",)
                self.finish_all()
                return
            except (ModelUnsupported, RecursionError) as e:
                self.final = ("unsupported", str(e))
                self.finish_all()
                return
            fb.state = "finished"
            caller = fb.caller
            fb.caller = None
            caller.inbox = result
            self.fiber = caller
            caller.wake.release()
        except FiberKill:
            pass

    def finish_all(self):
        """an uncaught error inside a fiber ends the whole run: wake the root fiber's thread"""
        self.terminated = True
        self.root.wake.release()


NO_VALUE = object()


class CompileMessages:
    """context of an ImportError raised for a module that does not compile: the implementation
    quotes the compiler's messages; the model only knows the head line"""

    def __init__(self, head, err):
        self.head = head
        self.err = err


def truthy(v):
    return not (v is None or v is False)


def is_boundary(b, i):
    if i == 0 or i == len(b):
        return True
    if i > len(b):
        return False
    return (b[i] & 0xC0) != 0x80


def split_lines(text):
    lines = text.split("\n")
    if lines and lines[-1] == "":
        lines.pop()
    return [l[:-1] if l.endswith("\r") else l for l in lines]


# ------------------------------------------------------------------------------------- natives

def check_args(ip, args, expected):
    if len(args) != expected:
        ip.throw("TypeError", "Expected %d parameter%s but found %d." % (expected, "" if expected == 1 else "s", len(args)))


def n_clock(ip, recv, args, frame):
    return 0.0


def n_print(ip, recv, args, frame):
    if len(args) != 1:
        ip.throw("TypeError", "Expected one argument to 'print'.")
    ip.out.append(ip.display(args[0]))
    return None


def n_type(ip, recv, args, frame):
    check_args(ip, args, 1)
    return ip.class_of(args[0])


def n_derives(ip, recv, args, frame):
    check_args(ip, args, 1)
    cls = ip.class_of(recv)
    q = args[0]
    if type(q) is not YClass:
        ip.throw("ValueError", "Expected a class name but found '%s'." % ip.display(q))
    c = cls
    while c is not None:
        if c is q:
            return True
        c = c.superclass
    return False


def n_host_fail(ip, recv, args, frame):
    if len(args) != 2:
        ip.throw("TypeError", "Expected 2 parameters.")
    kinds = ["AttributeError", "RuntimeError", "ImportError", "IndexError", "NameError", "RuntimeError", "TypeError",
             "ValueError"]
    k = args[0] if type(args[0]) is float else 7.0
    idx = to_i64(k)
    name = kinds[idx] if 0 <= idx <= 6 else "ValueError"
    ip.throw(name, ip.display(args[1]))


def n_host_echo(ip, recv, args, frame):
    if len(args) != 1:
        ip.throw("TypeError", "Expected 1 parameter.")
    return args[0]


def n_host_str(ip, recv, args, frame):
    if len(args) != 1:
        ip.throw("TypeError", "Expected 1 parameter.")
    return ip.display(args[0])


# -- String

def vec_arg(ip, args):
    check_args(ip, args, 1)
    v = args[0]
    if type(v) is not YVec:
        ip.throw("TypeError", "Expected a Vec instance but found '%s'." % ip.display(v))
    return v


def byte_values(ip, vec):
    out = []
    for v in vec.items:
        if type(v) is not float:
            ip.throw("TypeError", "Expected a number but found '%s'." % ip.display(v))
        if v < 0 or v > 255 or v != v or math.trunc(v) != v:
            ip.throw("ValueError", "Expected a positive integer less than 256 but found '%s'." % fmt_rust_f64(v))
        out.append(int(v))
    return out


def fmt_rust_f64(v):
    """Rust `{}` of an f64 (used inside some messages, without yarel's -0 special case)"""
    if v == 0 and math.copysign(1.0, v) < 0:
        return "-0"
    return fmt_num(v)


def s_from(ip, recv, args, frame):
    check_args(ip, args, 1)
    return ip.display(args[0])


def s_from_ascii(ip, recv, args, frame):
    vec = vec_arg(ip, args)
    out = bytearray()
    for b in byte_values(ip, vec):
        if b > 127:
            out.append(195)
            out.append(b & 0b10111111)
        else:
            out.append(b)
    try:
        return bytes(out).decode("utf-8")
    except UnicodeDecodeError:
        ip.throw("ValueError", "Unable to create a string from byte sequence.")


def s_from_utf8(ip, recv, args, frame):
    vec = vec_arg(ip, args)
    raw = bytes(byte_values(ip, vec))
    try:
        return raw.decode("utf-8")
    except UnicodeDecodeError as e:
        idx = e.start
        ip.throw("ValueError", "Invalid Unicode encountered at byte %d with index %d." % (raw[idx], idx))


def s_from_code_points(ip, recv, args, frame):
    vec = vec_arg(ip, args)
    out = []
    for v in vec.items:
        if type(v) is not float:
            ip.throw("TypeError", "Expected a number but found '%s'." % ip.display(v))
        if v < 0 or v > 4294967295.0 or v != v or math.trunc(v) != v:
            ip.throw("ValueError", "Expected a positive integer less than 4294967295 but found '%s'." % fmt_rust_f64(v))
        cp = int(v)
        if cp > 0x10FFFF or 0xD800 <= cp <= 0xDFFF:
            ip.throw("ValueError", "Expected a valid Unicode code point but found '%d'." % cp)
        out.append(chr(cp))
    return "".join(out)


def s_iter(ip, recv, args, frame):
    check_args(ip, args, 0)
    return YIter("string", recv)


def s_len(ip, recv, args, frame):
    check_args(ip, args, 0)
    return float(len(recv.encode("utf-8")))


def s_is_alpha(ip, recv, args, frame):
    check_args(ip, args, 0)
    return len(recv) > 0 and all(c.isascii() and c.isalpha() for c in recv)


def s_is_digit(ip, recv, args, frame):
    check_args(ip, args, 0)
    return len(recv) > 0 and all(c in "0123456789" for c in recv)


def s_is_hexdigit(ip, recv, args, frame):
    check_args(ip, args, 0)
    return len(recv) > 0 and all(c in "0123456789abcdefABCDEF" for c in recv)


def s_count_chars(ip, recv, args, frame):
    check_args(ip, args, 0)
    return float(len(recv))


def s_char_byte_index(ip, recv, args, frame):
    check_args(ip, args, 1)
    i = ip.bounded_index(args[0], len(recv), "String")
    return float(len(recv[:i].encode("utf-8")))


def s_find(ip, recv, args, frame):
    check_args(ip, args, 2)
    sub = args[0]
    if type(sub) is not str:
        ip.throw("TypeError", "Expected a string but found '%s'." % ip.display(sub))
    if sub == "":
        ip.throw("ValueError", "Cannot find empty string.")
    b = recv.encode("utf-8")
    n = len(b)
    start = ip.validate_integer(args[1])
    if start < 0:
        start += n
    if start < 0 or start >= n:
        ip.throw("IndexError", "String index out of bounds.")
    if not is_boundary(b, start):
        ip.throw("IndexError", "Provided string index is not on a character boundary.")
    pos = b.find(sub.encode("utf-8"), start)
    return None if pos < 0 else float(pos)


def str_arg(ip, v):
    if type(v) is not str:
        ip.throw("TypeError", "Expected a string but found '%s'." % ip.display(v))
    return v


def s_replace(ip, recv, args, frame):
    check_args(ip, args, 2)
    old = str_arg(ip, args[0])
    if old == "":
        ip.throw("ValueError", "Cannot replace empty string.")
    new = str_arg(ip, args[1])
    return recv.replace(old, new)


def s_split(ip, recv, args, frame):
    check_args(ip, args, 1)
    d = str_arg(ip, args[0])
    if d == "":
        ip.throw("ValueError", "Cannot split using an empty string.")
    return YVec(list(recv.split(d)))


def s_starts_with(ip, recv, args, frame):
    check_args(ip, args, 1)
    return recv.startswith(str_arg(ip, args[0]))


def s_ends_with(ip, recv, args, frame):
    check_args(ip, args, 1)
    return recv.endswith(str_arg(ip, args[0]))


def s_to_num(ip, recv, args, frame):
    check_args(ip, args, 0)
    v = parse_num(recv)
    if v is None:
        ip.throw("ValueError", "Unable to parse number from '%s'." % recv)
    return v


def s_to_bytes(ip, recv, args, frame):
    check_args(ip, args, 0)
    return YVec([float(b) for b in recv.encode("utf-8")])


def s_to_code_points(ip, recv, args, frame):
    check_args(ip, args, 0)
    return YVec([float(ord(c)) for c in recv])


def typed(kind, ok, table, arities):
    """native methods check their receiver after the argument count: a user class may derive from a
    built-in class and call the inherited native on an ordinary instance"""
    out = {}
    for name, fn in table.items():
        def make(fn, arity):
            def wrapper(ip, recv, args, frame):
                if (arity is None or len(args) == arity) and not ok(recv):
                    ip.throw("TypeError", "Expected a %s receiver but found '%s'." % (kind, ip.display(recv)))
                return fn(ip, recv, args, frame)
            return wrapper
        out[name] = make(fn, arities.get(name))
    return out


STRING_STATICS = {"from": s_from, "from_ascii": s_from_ascii, "from_utf8": s_from_utf8,
                  "from_code_points": s_from_code_points}
STRING_METHODS = typed("String", lambda r: type(r) is str, {
    "iter": s_iter, "len": s_len, "is_alpha": s_is_alpha, "is_digit": s_is_digit, "is_hexdigit": s_is_hexdigit,
    "count_chars": s_count_chars, "char_byte_index": s_char_byte_index, "find": s_find, "replace": s_replace, "split": s_split,
    "starts_with": s_starts_with, "ends_with": s_ends_with, "to_num": s_to_num, "to_bytes": s_to_bytes,
    "to_code_points": s_to_code_points},
    {"iter": 0, "len": 0, "is_alpha": 0, "is_digit": 0, "is_hexdigit": 0, "count_chars": 0, "char_byte_index": 1, "find": 2,
     "replace": 2, "split": 1, "starts_with": 1, "ends_with": 1, "to_num": 0, "to_bytes": 0, "to_code_points": 0})


# -- iterators

def stop_iter(ip):
    inst = YInstance(ip.c_stop_iter)
    inst.fields["context"] = None
    return inst


def n_iter_next(ip, recv, args, frame):
    check_args(ip, args, 0)
    it = recv
    if it.kind == "string":
        b = it.src
        if it.pos == len(b):
            return stop_iter(ip)
        old = it.pos
        it.pos += 1
        while it.pos < len(b) and not is_boundary(b, it.pos):
            it.pos += 1
        return b[old:it.pos].decode("utf-8")
    if it.kind == "range":
        if it.pos == it.src.end:
            return stop_iter(ip)
        v = float(it.pos)
        it.pos += it.step
        return v
    items = it.src.items
    if it.pos >= len(items):
        return stop_iter(ip)
    v = items[it.pos]
    it.pos += 1
    return v


def n_range_iter(ip, recv, args, frame):
    check_args(ip, args, 0)
    return YIter("range", recv)


# -- Tuple / Vec

def t_len(ip, recv, args, frame):
    check_args(ip, args, 0)
    return float(len(recv.items))


def t_iter(ip, recv, args, frame):
    check_args(ip, args, 0)
    return YIter("tuple", recv)


TUPLE_METHODS = typed("Tuple", lambda r: type(r) is YTuple, {"len": t_len, "iter": t_iter}, {"len": 0, "iter": 0})


def v_push(ip, recv, args, frame):
    check_args(ip, args, 1)
    recv.items.append(args[0])
    return recv


def v_pop(ip, recv, args, frame):
    check_args(ip, args, 0)
    if not recv.items:
        ip.throw("RuntimeError", "Cannot pop from empty Vec instance.")
    return recv.items.pop()


def v_iter(ip, recv, args, frame):
    check_args(ip, args, 0)
    return YIter("vec", recv)


VEC_METHODS = typed("Vec", lambda r: type(r) is YVec, {"push": v_push, "pop": v_pop, "len": t_len, "iter": v_iter},
                    {"push": 1, "pop": 0, "len": 0, "iter": 0})


# -- HashMap

def key_arg(ip, k):
    if not has_hash(k):
        ip.throw("ValueError", "Cannot use unhashable value '%s' as HashMap key." % ip.display(k))
    return k


def m_has_key(ip, recv, args, frame):
    check_args(ip, args, 1)
    return recv.find(key_arg(ip, args[0])) is not None


def m_get(ip, recv, args, frame):
    check_args(ip, args, 1)
    e = recv.find(key_arg(ip, args[0]))
    return e[1] if e is not None else None


def m_insert(ip, recv, args, frame):
    check_args(ip, args, 2)
    k = key_arg(ip, args[0])
    e = recv.find(k)
    if e is not None:
        old = e[1]
        e[1] = args[1]
        return old
    recv.entries.append([k, args[1]])
    return None


def m_remove(ip, recv, args, frame):
    check_args(ip, args, 1)
    e = recv.find(key_arg(ip, args[0]))
    if e is None:
        return None
    recv.entries = [x for x in recv.entries if x is not e]
    return e[1]


def m_clear(ip, recv, args, frame):
    check_args(ip, args, 0)
    recv.entries = []
    return None


def m_len(ip, recv, args, frame):
    check_args(ip, args, 0)
    return float(len(recv.entries))


def m_keys(ip, recv, args, frame):
    check_args(ip, args, 0)
    return YVec([e[0] for e in recv.entries])


def m_values(ip, recv, args, frame):
    check_args(ip, args, 0)
    return YVec([e[1] for e in recv.entries])


def m_items(ip, recv, args, frame):
    check_args(ip, args, 0)
    return YVec([YTuple([e[0], e[1]]) for e in recv.entries])


MAP_METHODS = typed("HashMap", lambda r: type(r) is YMap, {
    "has_key": m_has_key, "get": m_get, "insert": m_insert, "remove": m_remove, "clear": m_clear, "len": m_len, "keys": m_keys,
    "values": m_values, "items": m_items},
    {"has_key": 1, "get": 1, "insert": 2, "remove": 1, "clear": 0, "len": 0, "keys": 0, "values": 0, "items": 0})


# -- Fiber

def n_fiber_new(ip, recv, args, frame):
    check_args(ip, args, 1)
    f = args[0]
    if type(f) is not YClosure:
        ip.throw("TypeError", "Expected a function but found '%s'." % ip.display(f))
    if len(f.fn.params) > 1:
        ip.throw("ValueError", "Fiber expects a closure that accepts at most 1 parameter.")
    return YFiber(f)


def n_fiber_call(ip, recv, args, frame):
    fb = recv
    if getattr(fb, "dead", False):
        raise ModelUnsupported("call of a fiber that was on the call chain of an aborted run")
    if fb.state == "new":
        check_args(ip, args, fb.call_arity)
    elif len(args) > 1:
        ip.throw("TypeError", "Expected at most 1 parameter but found %d." % len(args))
    if fb.state == "finished":
        ip.throw("RuntimeError", "Cannot call a finished fiber.")
    if fb.caller is not None or fb is ip.fiber:
        ip.throw("RuntimeError", "Cannot call a fiber that has already been called.")
    fb.caller = ip.fiber
    fb.state = "running"
    return ip.switch_to(fb, args[0] if args else None)


def n_fiber_yield(ip, recv, args, frame):
    if len(args) > 1:
        ip.throw("TypeError", "Expected at most 1 parameter but found %d." % len(args))
    cur = ip.fiber
    if cur.caller is None:
        ip.throw("RuntimeError", "Cannot yield from module-level code.")
    caller = cur.caller
    cur.caller = None
    cur.state = "suspended"
    return ip.switch_to(caller, args[0] if args else None)


def n_fiber_has_finished(ip, recv, args, frame):
    check_args(ip, args, 0)
    return recv.state == "finished"


# laid out line for line like the pinned yarel/src/core.yl, so that trace lines through the adapters agree
CORE_YL = '''class Error {
    #[constructor]
    fn new(self, context) {
        self.context = context;
    }
}

#[derive(Error)]
class RuntimeError {}

#[derive(Error)]
class AttributeError {}

#[derive(Error)]
class IndexError {}

#[derive(Error)]
class ImportError {}

#[derive(Error)]
class NameError {}

#[derive(Error)]
class TypeError {}

#[derive(Error)]
class ValueError {}

#[derive(Error)]
class StopIter {
    #[constructor]
    fn new(self) {
        super.new(nil);
    }
}

class Iter {
    fn iter(self) {
        return self;
    }

    fn map(self, f) {
        return MapIter.new(self.iter(), f);
    }

    fn collect(self) {
        var ret = [];
        for v in self {
            ret.push(v);
        }
        return ret;
    }

    fn filter(self, pred) {
        return FilterIter.new(self.iter(), pred);
    }

    fn reduce(self, func, init) {
        var ret = init;
        for v in self {
            ret = func(ret, v);
        }
        return ret;
    }
}

#[derive(Iter)]
class MapIter {
    #[constructor]
    fn new(self, iterable, func) {
        self.iterable = iterable;
        self.func = func;
    }

    fn iter(self) {
        return self;
    }

    fn next(self) {
        var next = self.iterable.next();
        if next.derives(StopIter) {
            return next;
        }
        return self.func(next);
    }
}

#[derive(Iter)]
class FilterIter {
    #[constructor]
    fn new(self, iterable, predicate) {
        self.iterable = iterable;
        self.predicate = predicate;
    }

    fn iter(self) {
        return self;
    }

    fn next(self) {
        var next = self.iterable.next();
        while !next.derives(StopIter) && !self.predicate(next) {
            next = self.iterable.next();
        }
        return next;
    }
}
'''
