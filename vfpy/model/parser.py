"""Reference model, part 1: an independent lexer and recursive-descent/Pratt parser for yarel
source text, producing a plain AST (tuples/lists of dict-free node objects).  Written from the
language description in DESIGN.md Appendix A; shares no code or tables with the implementation.

Programs the model does not understand raise ModelUnsupported (the check discards them);
programs the compiler must reject raise ModelCompileError (best effort: message optional)."""


class ModelUnsupported(Exception):
    pass


class ModelCompileError(Exception):
    def __init__(self, message, line=None):
        Exception.__init__(self, message)
        self.message = message
        self.line = line


KEYWORDS = {"as", "break", "catch", "class", "continue", "else", "false", "finally", "for", "fn", "if", "import",
            "in", "nil", "return", "Self", "self", "super", "throw", "true", "try", "var", "while"}

PUNCT3 = {"<<=", ">>="}
PUNCT2 = {"..", "-=", "+=", "/=", "*=", "!=", "==", ">=", "<=", "&=", "|=", "^=", "%=", ">>", "<<", "&&", "||"}
PUNCT1 = set("(){}[],.-+:;/*!=><&|^%~#")

SIMPLE_ESCAPES = {"$": "$", "a": "\x07", "b": "\x08", "f": "\x0c", "n": "\n", "r": "\r", "t": "\t", "v": "\x0b",
                  '"': '"', "\\": "\\", "0": "\0"}


class Tok:
    __slots__ = ("kind", "text", "line", "parts")

    def __init__(self, kind, text, line, parts=None):
        self.kind = kind      # 'id', 'kw', 'num', 'str', 'interp', 'op', 'eof'
        self.text = text
        self.line = line
        self.parts = parts    # for 'interp': list of str | list[Tok]

    def __repr__(self):
        return "Tok(%s,%r,%d)" % (self.kind, self.text, self.line)


class Lexer:
    def __init__(self, src):
        self.src = src
        self.pos = 0
        self.line = 1
        self.depth = 0

    def error(self, msg):
        raise ModelCompileError(msg, self.line)

    def tokens(self, until_brace=False):
        """tokenise; if until_brace, stop at the '}' that closes an interpolation (depth 0)"""
        out = []
        depth = 0
        src = self.src
        n = len(src)
        while True:
            self.skip_ws()
            if self.pos >= n:
                if until_brace:
                    self.error("Unterminated string.")
                out.append(Tok("eof", "", self.line))
                return out
            c = src[self.pos]
            if c.isascii() and (c.isalpha() or c == "_"):
                s = self.pos
                while self.pos < n and src[self.pos].isascii() and (src[self.pos].isalnum() or src[self.pos] == "_"):
                    self.pos += 1
                text = src[s:self.pos]
                out.append(Tok("kw" if text in KEYWORDS else "id", text, self.line))
                continue
            if c.isascii() and c.isdigit():
                s = self.pos
                while self.pos < n and src[self.pos].isascii() and src[self.pos].isdigit():
                    self.pos += 1
                if self.pos + 1 < n and src[self.pos] == "." and src[self.pos + 1].isascii() and src[self.pos + 1].isdigit():
                    self.pos += 1
                    while self.pos < n and src[self.pos].isascii() and src[self.pos].isdigit():
                        self.pos += 1
                out.append(Tok("num", src[s:self.pos], self.line))
                continue
            if c == '"':
                self.pos += 1
                out.append(self.string())
                continue
            if c == "{" and until_brace:
                depth += 1
            if c == "}" and until_brace:
                if depth == 0:
                    self.pos += 1
                    return out
                depth -= 1
            three = src[self.pos:self.pos + 3]
            two = src[self.pos:self.pos + 2]
            if three in PUNCT3:
                out.append(Tok("op", three, self.line))
                self.pos += 3
            elif two in PUNCT2:
                out.append(Tok("op", two, self.line))
                self.pos += 2
            elif c in PUNCT1:
                out.append(Tok("op", c, self.line))
                self.pos += 1
            else:
                self.error("Unexpected character: '%s'." % c)

    def skip_ws(self):
        src = self.src
        n = len(src)
        while self.pos < n:
            c = src[self.pos]
            if c == "\n":
                self.line += 1
                self.pos += 1
            elif c in " \r\t":
                self.pos += 1
            elif c == "/" and src[self.pos + 1:self.pos + 2] == "/":
                while self.pos < n and src[self.pos] != "\n":
                    self.pos += 1
            else:
                return

    def hex_bytes(self, count):
        """count bytes written as 2*count hex digits, interpreted as raw UTF-8 bytes"""
        src = self.src
        digits = src[self.pos:self.pos + 2 * count]
        if len(digits) < 2 * count or '"' in digits:
            return None
        try:
            raw = bytes(int(digits[i:i + 2], 16) for i in range(0, 2 * count, 2))
        except ValueError:
            self.pos += 2 * count
            return None
        for ch in digits:
            if not (ch.isascii() and ch in "0123456789abcdefABCDEF"):
                self.pos += 2 * count
                return None
        self.pos += 2 * count
        if count == 1 and raw[0] > 127:
            raw = bytes([195, raw[0] & 0b10111111])
        try:
            return raw.decode("utf-8")
        except UnicodeDecodeError:
            return None

    def string(self):
        """after the opening quote (or after the '}' closing an interpolation)"""
        src = self.src
        n = len(src)
        parts = []
        buf = []
        err = None
        start_line = self.line
        while True:
            if self.pos >= n:
                self.error("Unterminated string.")
            c = src[self.pos]
            if c == '"':
                self.pos += 1
                break
            self.pos += 1
            if c == "$":
                if src[self.pos:self.pos + 1] != "{":
                    self.error("Expected '{' in string interpolation.")
                self.pos += 1
                parts.append("".join(buf))
                buf = []
                if self.depth >= 8:
                    self.error("Max interpolation depth exceeded.")
                self.depth += 1
                sub = self.tokens(until_brace=True)
                self.depth -= 1
                parts.append(sub)
                continue
            if c == "\\":
                e = src[self.pos:self.pos + 1]
                self.pos += 1
                if e in SIMPLE_ESCAPES:
                    buf.append(SIMPLE_ESCAPES[e])
                elif e in ("u", "U", "x"):
                    s = self.hex_bytes({"u": 2, "U": 4, "x": 1}[e])
                    if s is None:
                        err = "Invalid hexadecimal sequence." if e == "x" else "Invalid Unicode sequence."
                    else:
                        buf.append(s)
                else:
                    self.error("Invalid escape sequence.")
                continue
            if c == "\n":
                self.line += 1
            buf.append(c)
        if err:
            self.error(err)
        if parts:
            parts.append("".join(buf))
            return Tok("interp", "", self.line, parts)
        return Tok("str", "".join(buf), self.line)


# ------------------------------------------------------------------------------------- AST

class Node:
    __slots__ = ("k", "line", "a", "b", "c", "d")

    def __init__(self, k, line, a=None, b=None, c=None, d=None):
        self.k = k
        self.line = line
        self.a = a
        self.b = b
        self.c = c
        self.d = d

    def __repr__(self):
        return "Node(%s@%d %r %r %r)" % (self.k, self.line, self.a, self.b, self.c)


class AttrList(dict):
    def __init__(self):
        dict.__init__(self)
        self.line = 0
        self.lines = {}


class ClassDecl:
    k = "class"
    __slots__ = ("name", "line", "super_name", "ctor_name", "methods", "slot", "super_ref", "super_slot", "self_ref",
                 "super_line")

    def __init__(self, name, line, super_name, ctor_name, methods):
        self.name = name
        self.line = line
        self.super_name = super_name
        self.ctor_name = ctor_name
        self.methods = methods
        self.slot = None
        self.super_ref = None
        self.super_slot = None
        self.self_ref = None


class FnDecl:
    """a function literal: name, params (names), body (list of stmts) or expr body, kind"""
    __slots__ = ("name", "params", "body", "expr_body", "kind", "line", "free", "nlocals", "uid", "end_line")

    def __init__(self, name, params, body, expr_body, kind, line):
        self.name = name
        self.params = params
        self.body = body
        self.expr_body = expr_body
        self.kind = kind          # 'function', 'method', 'initialiser', 'static', 'script'
        self.line = line
        self.free = []            # filled by the resolver: list of (name-key, ('local', slot) | ('up', index))
        self.nlocals = 0
        self.uid = 0
        self.end_line = line


# precedence levels, loosest to tightest
P_NONE, P_ASSIGN, P_OR, P_AND, P_EQ, P_CMP, P_BOR, P_BXOR, P_BAND, P_SHIFT, P_TERM, P_FACTOR, P_RANGE, P_UNARY, P_CALL = range(15)

BINARY = {
    "==": P_EQ, "!=": P_EQ, "<": P_CMP, ">": P_CMP, "<=": P_CMP, ">=": P_CMP, "|": P_BOR, "^": P_BXOR, "&": P_BAND,
    "<<": P_SHIFT, ">>": P_SHIFT, "+": P_TERM, "-": P_TERM, "*": P_FACTOR, "/": P_FACTOR, "%": P_FACTOR,
}
COMPOUND = {"-=": "-", "+=": "+", "/=": "/", "*=": "*", "&=": "&", "|=": "|", "^=": "^", "%=": "%", "<<=": "<<", ">>=": ">>"}


class Parser:
    def __init__(self, toks):
        self.toks = toks
        self.i = 0
        self.single_target = False
        self.fn_kinds = ["script"]
        self.class_depth = []   # stack of has_superclass flags
        self.lambda_counts = [0]
        self.loop_depth = [0]

    # -- token helpers
    @property
    def cur(self):
        return self.toks[self.i]

    def advance(self):
        t = self.toks[self.i]
        if t.kind != "eof":
            self.i += 1
        return t

    def check(self, text):
        t = self.cur
        return t.kind in ("op", "kw") and t.text == text

    def match(self, text):
        if self.check(text):
            self.i += 1
            return True
        return False

    def expect(self, text, msg):
        if not self.match(text):
            raise ModelCompileError(msg, self.cur.line)
        return self.toks[self.i - 1]

    def ident(self, msg):
        t = self.cur
        if t.kind != "id":
            raise ModelCompileError(msg, t.line)
        self.i += 1
        return t

    # -- program
    def program(self):
        body = []
        while self.cur.kind != "eof":
            body.append(self.declaration())
        fn = FnDecl("", [], body, None, "script", 1)
        fn.end_line = self.cur.line
        return fn

    def declaration(self):
        attrs = None
        if self.check("#"):
            attrs = self.attributes()
            if not (self.check("class") or self.check("fn")):
                raise ModelCompileError("Unexpected attribute list.", attrs.line)
        if self.match("class"):
            return self.class_decl(attrs if attrs is not None else AttrList())
        if self.match("fn"):
            if attrs:
                a = sorted(attrs)[0]
                raise ModelCompileError("Unsupported function attribute '%s'." % a, attrs.lines[a])
            name = self.ident("Expected function name.")
            fn = self.function(name.text, "function", name.line)
            return Node("fndecl", name.line, name.text, fn)
        if self.match("var"):
            name = self.ident("Expected variable name.")
            init = None
            if self.match("="):
                init = self.expression()
            self.expect(";", "Expected ';' after variable declaration.")
            return Node("var", name.line, name.text, init)
        return self.statement()

    def attributes(self):
        line = self.cur.line
        self.expect("#", "Expected '#'.")
        self.expect("[", "Expected '[' after '#'.")
        attrs = AttrList()
        attrs.line = line
        while self.cur.kind == "id":
            name = self.advance()
            args = []
            if self.match("("):
                while True:
                    args.append(self.ident("Expected an attribute argument."))
                    if not self.match(","):
                        break
                self.expect(")", "Expected ')' after attribute arguments.")
            if name.text in attrs:
                raise ModelCompileError("Duplicate attribute '%s'." % name.text, name.line)
            attrs[name.text] = args
            attrs.lines[name.text] = name.line
            if not self.match(","):
                break
        if not attrs:
            raise ModelCompileError("Expected at least one attribute.", line)
        self.expect("]", "Expected ']' after attribute list.")
        return attrs

    def function(self, name, kind, line):
        self.fn_kinds.append(kind)
        self.lambda_counts.append(0)
        self.loop_depth.append(0)
        self.expect("(", "Expected '(' after function name.")
        params = []
        if kind in ("method", "initialiser"):
            self.expect("self", "Expected 'self' as first parameter in method.")
            self.match(",")
        elif self.check("self"):
            raise ModelCompileError("Expected parameter name.", self.cur.line)
        if not self.check(")"):
            while True:
                p = self.ident("Expected parameter name.")
                if p.text in params:
                    raise ModelCompileError("Variable with this name already declared in this scope.", p.line)
                params.append(p.text)
                if len(params) > 255:
                    raise ModelCompileError("Cannot have more than 255 parameters.", p.line)
                if not self.match(","):
                    break
        self.expect(")", "Expected ')' after parameters.")
        self.expect("{", "Expected '{' before function body.")
        body = self.block_body()
        fn = FnDecl(name, params, body, None, kind, line)
        fn.end_line = self.toks[self.i - 1].line
        self.fn_kinds.pop()
        self.lambda_counts.pop()
        self.loop_depth.pop()
        return fn

    def block_body(self):
        body = []
        while not self.check("}") and self.cur.kind != "eof":
            body.append(self.declaration())
        self.expect("}", "Expected '}' after block.")
        return body

    def class_decl(self, attrs):
        ctor_name = None
        super_name = None
        super_line = None
        for k, v in attrs.items():
            if k == "constructor":
                if len(v) != 1:
                    raise ModelCompileError("Expected 1 argument to 'constructor' attribute.", attrs.lines[k])
                ctor_name = v[0].text
            elif k == "derive":
                if len(v) != 1:
                    raise ModelCompileError("Expected 1 argument to 'derive' attribute.", attrs.lines[k])
                super_name = v[0].text
                super_line = v[0].line
            else:
                raise ModelCompileError("Unsupported class attribute '%s'." % k, attrs.lines[k])
        name = self.ident("Expected class name.")
        if super_name == name.text:
            raise ModelCompileError("A class cannot inherit from itself.", name.line)
        self.class_depth.append(super_name is not None)
        self.expect("{", "Expected '{' before class body.")
        methods = []
        while not self.check("}") and self.cur.kind != "eof":
            mattrs = AttrList()
            if self.check("#"):
                mattrs = self.attributes()
            is_static = False
            is_ctor = False
            for k, v in mattrs.items():
                if k == "static" and not v:
                    is_static = True
                elif k == "constructor" and not v:
                    is_ctor = True
                else:
                    raise ModelCompileError("Unsupported method attribute '%s'." % k, mattrs.lines[k])
            if is_static and is_ctor:
                raise ModelCompileError("Constructors cannot be static.", self.cur.line)
            self.expect("fn", "Expected 'fn' before method name.")
            mname = self.ident("Expected method name.")
            kind = "initialiser" if is_ctor else ("static" if is_static else "method")
            fn = self.function(mname.text, kind, mname.line)
            methods.append((mname.text, kind, fn))
        self.expect("}", "Expected '}' after class body.")
        self.class_depth.pop()
        decl = ClassDecl(name.text, name.line, super_name, ctor_name, methods)
        decl.super_line = super_line
        return decl

    def statement(self):
        t = self.cur
        if self.match("import"):
            p = self.cur
            if p.kind != "str":
                raise ModelCompileError("Expected a module path.", p.line)
            self.i += 1
            if p.text == "main":
                raise ModelCompileError("Cannot import top-level module.", p.line)
            if self.match("as"):
                name = self.ident("Expected module name.").text
            else:
                name = p.text.rstrip("/").split("/")[-1]
                if not name or name in (".", ".."):
                    raise ModelCompileError("Expected a module path.", p.line)
            self.expect(";", "Expected ';' after module import.")
            return Node("import", t.line, p.text, name)
        if self.match("for"):
            v = self.ident("Expected loop variable name.")
            self.expect("in", "Expected 'in' after loop variable.")
            it = self.expression()
            self.expect("{", "Expected '{' after loop expression.")
            self.loop_depth[-1] += 1
            body = self.block_body()
            self.loop_depth[-1] -= 1
            return Node("for", t.line, v.text, it, body)
        if self.match("if"):
            return self.if_rest(t.line)
        if self.match("return"):
            if self.fn_kinds[-1] == "script":
                raise ModelCompileError("Cannot return from top-level code.", t.line)
            if self.match(";"):
                return Node("return", t.line, None)
            if self.fn_kinds[-1] == "initialiser":
                raise ModelCompileError("Cannot return a value from an initialiser.", t.line)
            e = self.expression()
            self.expect(";", "Expected ';' after return value.")
            return Node("return", t.line, e)
        if self.match("break"):
            if self.loop_depth[-1] == 0:
                raise ModelCompileError("Cannot use 'break' statement outside of loop body.", t.line)
            self.expect(";", "Expected ';' after 'break'.")
            return Node("break", t.line)
        if self.match("continue"):
            if self.loop_depth[-1] == 0:
                raise ModelCompileError("Cannot use 'continue' statement outside of loop body.", t.line)
            self.expect(";", "Expected ';' after 'continue'.")
            return Node("continue", t.line)
        if self.match("throw"):
            e = self.expression()
            self.expect(";", "Expected ';' after throw value.")
            return Node("throw", self.toks[self.i - 1].line, e)
        if self.match("try"):
            self.expect("{", "Expected '{' after 'try'.")
            body = self.block_body()
            cvar = None
            cbody = None
            fbody = None
            if self.match("catch"):
                cvar = self.ident("Expected exception variable name.").text
                self.expect("{", "Expected '{' after variable.")
                cbody = self.block_body()
            if self.match("finally"):
                self.expect("{", "Expected '{' after 'finally'.")
                fbody = self.block_body()
            if cbody is None and fbody is None:
                raise ModelCompileError("Expected 'catch' or 'finally' after 'try' block.", self.cur.line)
            n = Node("try", t.line, body, cvar, cbody, fbody)
            return n
        if self.match("while"):
            cond = self.expression()
            self.expect("{", "Expected '{' after condition.")
            self.loop_depth[-1] += 1
            body = self.block_body()
            self.loop_depth[-1] -= 1
            return Node("while", t.line, cond, body)
        if self.match("{"):
            return Node("block", t.line, self.block_body())
        e = self.expression()
        self.expect(";", "Expected ';' after expression.")
        return Node("expr", self.toks[self.i - 1].line, e)

    def if_rest(self, line):
        cond = self.expression()
        self.expect("{", "Expected '{' after condition.")
        then = self.block_body()
        els = None
        if self.match("else"):
            if self.match("if"):
                els = ("elif", self.if_rest(self.toks[self.i - 1].line))
            elif self.match("{"):
                els = ("else", self.block_body())
            else:
                raise ModelCompileError("Expected '{' after 'else'.", self.cur.line)
        return Node("if", line, cond, then, els)

    # -- expressions
    def expression(self):
        return self.parse_prec(P_BOR if self.single_target else P_ASSIGN)

    def parse_prec(self, prec):
        t = self.advance()
        can_assign = prec <= P_ASSIGN
        left = self.prefix(t, can_assign)
        while True:
            c = self.cur
            p = self.infix_prec(c)
            if p is None or prec > p:
                break
            self.advance()
            left = self.infix(c, left, can_assign)
        if can_assign and self.check("="):
            raise ModelCompileError("Invalid assignment target.", self.cur.line)
        return left

    def infix_prec(self, t):
        if t.kind != "op":
            return None
        x = t.text
        if x in BINARY:
            return BINARY[x]
        if x in ("(", "[", "."):
            return P_CALL
        if x == "..":
            return P_RANGE
        if x == "&&":
            return P_AND
        if x == "||":
            return P_OR
        return None

    def prefix(self, t, can_assign):
        k = t.kind
        if k == "num":
            return Node("num", t.line, float(t.text))
        if k == "str":
            return Node("str", t.line, t.text)
        if k == "interp":
            parts = []
            for p in t.parts:
                if isinstance(p, str):
                    if p != "":
                        parts.append(p)
                else:
                    sub = Parser(p + [Tok("eof", "", t.line)])
                    sub.fn_kinds = self.fn_kinds
                    sub.class_depth = self.class_depth
                    sub.lambda_counts = self.lambda_counts
                    sub.loop_depth = self.loop_depth
                    sub.single_target = self.single_target
                    e = sub.expression()
                    if sub.cur.kind != "eof":
                        raise ModelCompileError("Expected '}' in interpolation.", t.line)
                    parts.append(e)
            if len(parts) > 255:
                raise ModelCompileError("Cannot have more than 255 parts in an interpolated string.", None)
            return Node("interp", t.line, parts)
        if k == "id":
            return self.named(t, can_assign)
        if k == "kw":
            x = t.text
            if x == "true":
                return Node("lit", t.line, True)
            if x == "false":
                return Node("lit", t.line, False)
            if x == "nil":
                return Node("lit", t.line, None)
            if x == "self":
                if not self.class_depth:
                    raise ModelCompileError("Cannot use 'self' outside of a class.", t.line)
                # the method a use of `self` belongs to is the innermost enclosing function that is not a plain
                # function or lambda, however deeply the use is nested
                if next((k_ for k_ in reversed(self.fn_kinds) if k_ != "function"), "script") == "static":
                    raise ModelCompileError("Cannot use 'self' in a static method.", t.line)
                return Node("name", t.line, "self")
            if x == "Self":
                if not self.class_depth:
                    raise ModelCompileError("Cannot use 'Self' outside of a class.", t.line)
                return Node("capself", t.line)
            if x == "super":
                if not self.class_depth:
                    raise ModelCompileError("Cannot use 'super' outside of a class.", t.line)
                if not self.class_depth[-1]:
                    raise ModelCompileError("Cannot use 'super' in a class with no superclass.", t.line)
                self.expect(".", "Expected '.' after 'super'.")
                name = self.ident("Expected superclass method name.")
                if self.match("("):
                    args = self.arguments(")", "Cannot have more than 255 arguments.", "Expected ')' after arguments.")
                    return Node("superinvoke", self.toks[self.i - 1].line, name.text, args)
                return Node("superget", name.line, name.text)
            raise ModelCompileError("Expected expression.", t.line)
        if k == "op":
            x = t.text
            if x == "(":
                return self.grouping(t)
            if x == "[":
                items = self.arguments("]", "Cannot have more than 255 Vec elements.", "Expected ']' after elements.")
                return Node("vec", self.toks[self.i - 1].line, items)
            if x == "{":
                return self.hash_map(t)
            if x in ("-", "!", "~"):
                operand = self.parse_prec(P_UNARY)
                return Node("unary", self.toks[self.i - 1].line, x, operand)
            if x in ("|", "||"):
                return self.lambda_(t)
        raise ModelCompileError("Expected expression.", t.line)

    def lambda_(self, t):
        name = "lambda-%d" % self.lambda_counts[-1]
        self.lambda_counts[-1] += 1
        self.fn_kinds.append("function")
        self.lambda_counts.append(0)
        self.loop_depth.append(0)
        params = []
        if t.text == "|":
            if not self.check("|"):
                while True:
                    p = self.ident("Expected parameter name.")
                    if p.text in params:
                        raise ModelCompileError("Variable with this name already declared in this scope.", p.line)
                    params.append(p.text)
                    if len(params) > 255:
                        raise ModelCompileError("Cannot have more than 255 parameters.", p.line)
                    if not self.match(","):
                        break
            self.expect("|", "Expected ')' after parameters.")
        if self.match("{"):
            body = self.block_body()
            fn = FnDecl(name, params, body, None, "function", t.line)
        else:
            e = self.expression()
            fn = FnDecl(name, params, None, e, "function", t.line)
        fn.end_line = self.toks[self.i - 1].line
        self.fn_kinds.pop()
        self.lambda_counts.pop()
        self.loop_depth.pop()
        return Node("lambda", t.line, fn)

    def grouping(self, t):
        items = []
        single = False
        if not self.check(")"):
            while True:
                items.append(self.expression())
                if len(items) > 255:
                    raise ModelCompileError("Cannot have more than 255 Tuple elements.", self.cur.line)
                if not self.match(","):
                    break
                if len(items) == 1 and self.check(")"):
                    single = True
                    break
        is_tuple = len(items) != 1 or single
        self.expect(")", "Expected ')' after %s." % ("elements" if is_tuple else "expression"))
        if is_tuple:
            return Node("tuple", self.toks[self.i - 1].line, items)
        return items[0]

    def hash_map(self, t):
        entries = []
        if not self.check("}"):
            while True:
                k = self.expression()
                self.expect(":", "Expected ':' after key.")
                v = self.expression()
                entries.append((k, v))
                if len(entries) > 255:
                    raise ModelCompileError("Cannot have more than 255 HashMap entries.", self.cur.line)
                if not self.match(","):
                    break
        self.expect("}", "Expected '}' after elements.")
        return Node("map", self.toks[self.i - 1].line, entries)

    def arguments(self, close, count_msg, delim_msg):
        args = []
        if not self.check(close):
            while True:
                args.append(self.expression())
                if len(args) > 255:
                    raise ModelCompileError(count_msg, self.cur.line)
                if not self.match(","):
                    break
        self.expect(close, delim_msg)
        return args

    def compound_rhs(self):
        self.single_target = True
        try:
            return self.expression()
        finally:
            self.single_target = False

    def named(self, t, can_assign):
        if can_assign and self.match("="):
            v = self.expression()
            return Node("assign", self.toks[self.i - 1].line, t.text, v)
        if can_assign and self.cur.kind == "op" and self.cur.text in COMPOUND:
            op = COMPOUND[self.advance().text]
            v = self.compound_rhs()
            return Node("opassign", self.toks[self.i - 1].line, t.text, op, v)
        return Node("name", t.line, t.text)

    def infix(self, t, left, can_assign):
        x = t.text
        if x in BINARY:
            right = self.parse_prec(BINARY[x] + 1)
            return Node("binary", self.toks[self.i - 1].line, x, left, right)
        if x == "&&":
            right = self.parse_prec(P_AND)
            return Node("and", t.line, left, right)
        if x == "||":
            right = self.parse_prec(P_OR)
            return Node("or", t.line, left, right)
        if x == "..":
            right = self.parse_prec(P_UNARY)
            return Node("range", self.toks[self.i - 1].line, left, right)
        if x == "(":
            args = self.arguments(")", "Cannot have more than 255 arguments.", "Expected ')' after arguments.")
            return Node("call", self.toks[self.i - 1].line, left, args)
        if x == "[":
            idx = self.expression()
            self.expect("]", "Expected ']' after index.")
            if can_assign and self.match("="):
                v = self.expression()
                return Node("setitem", self.toks[self.i - 1].line, left, idx, v)
            return Node("getitem", self.toks[self.i - 1].line, left, idx)
        if x == ".":
            name = self.ident("Expected property name after '.'.")
            if can_assign and self.match("="):
                v = self.expression()
                return Node("setprop", self.toks[self.i - 1].line, left, name.text, v)
            if can_assign and self.cur.kind == "op" and self.cur.text in COMPOUND:
                op = COMPOUND[self.advance().text]
                v = self.compound_rhs()
                return Node("oppropassign", self.toks[self.i - 1].line, left, name.text, op, v)
            if self.match("("):
                args = self.arguments(")", "Cannot have more than 255 arguments.", "Expected ')' after arguments.")
                return Node("invoke", self.toks[self.i - 1].line, left, name.text, args)
            return Node("getprop", name.line, left, name.text)
        raise ModelUnsupported("infix " + x)


def parse(src):
    toks = Lexer(src).tokens()
    p = Parser(toks)
    return p.program()
