"""Shared machinery: RNG, build, batch execution with crash/timeout attribution, findings,
violations/replays, evidence."""
import fcntl
import hashlib
import json
import os
import re
import shutil
import signal
import subprocess
import sys
import tempfile
import time

VERIF = os.path.dirname(os.path.dirname(os.path.abspath(__file__)))
REPO = os.environ.get("VERIF_REPO", "/repo")
NCPU = int(os.environ.get("VERIF_JOBS", str(os.cpu_count() or 4)))


def repo_tag():
    if os.path.abspath(REPO) == "/repo":
        return "main"
    return "alt-" + hashlib.sha1(os.path.abspath(REPO).encode()).hexdigest()[:10]


BUILD_ROOT = os.path.join(VERIF, "build", repo_tag())
BIN_DIR = os.path.join(BUILD_ROOT, "bin")
TMP_ROOT = os.path.join(BUILD_ROOT, "tmp")

MASK64 = (1 << 64) - 1


class Rng:
    """splitmix64; one stream per check, derived from VERIF_SEED and a label."""

    def __init__(self, seed, label=""):
        h = hashlib.sha256(("%d/%s" % (seed, label)).encode()).digest()
        self.state = int.from_bytes(h[:8], "little")

    def next(self):
        self.state = (self.state + 0x9E3779B97F4A7C15) & MASK64
        z = self.state
        z = ((z ^ (z >> 30)) * 0xBF58476D1CE4E5B9) & MASK64
        z = ((z ^ (z >> 27)) * 0x94D049BB133111EB) & MASK64
        return z ^ (z >> 31)

    def below(self, n):
        return self.next() % n if n > 0 else 0

    def range(self, lo, hi):
        """inclusive"""
        return lo + self.below(hi - lo + 1)

    def chance(self, num, den=100):
        return self.below(den) < num

    def choice(self, seq):
        return seq[self.below(len(seq))]

    def weighted(self, pairs):
        total = sum(w for _, w in pairs)
        r = self.below(total)
        for item, w in pairs:
            if r < w:
                return item
            r -= w
        return pairs[-1][0]

    def shuffle(self, seq):
        seq = list(seq)
        for i in range(len(seq) - 1, 0, -1):
            j = self.below(i + 1)
            seq[i], seq[j] = seq[j], seq[i]
        return seq

    def sample(self, seq, k):
        return self.shuffle(seq)[:k]

    def fork(self, label):
        return Rng(self.next(), label)


def seed():
    try:
        return int(os.environ.get("VERIF_SEED", "0"))
    except ValueError:
        return 0


ADDR_RE = re.compile(r"0x[0-9a-f]+")


ADDR_DAMAGED_RE = re.compile(r"@ \[MEMADDR\][0-9A-Za-z]*>")


def norm(text):
    # an address inside a printed value; if the text went through replace() or the like afterwards, the tail of the
    # address may no longer be hexadecimal: mask up to the closing '>' of the value
    return ADDR_DAMAGED_RE.sub("@ [MEMADDR]>", ADDR_RE.sub("[MEMADDR]", text))


# ----------------------------------------------------------------------------- build

CONFIGS = {
    # name: (toolchain, profile args, features, target subdir of the produced binary, extra env, target dir name)
    "hook": ("", ["--profile", "hook"], "hooks,safe", "hook", {}, "target"),
    "hookfast": ("", ["--release"], "hooks", "release", {}, "target"),
    "dev": ("", [], "", "debug", {}, "target"),
    "rel": ("", ["--release"], "", "release", {}, "target"),
    "asan": ("+nightly", ["--release", "--target", "x86_64-unknown-linux-gnu"], "stress",
             "x86_64-unknown-linux-gnu/release",
             {"RUSTFLAGS": "-Zsanitizer=address -Cforce-frame-pointers=yes"}, "target-asan"),
    "asanrel": ("+nightly", ["--release", "--target", "x86_64-unknown-linux-gnu"], "",
                "x86_64-unknown-linux-gnu/release",
                {"RUSTFLAGS": "-Zsanitizer=address -Cforce-frame-pointers=yes"}, "target-asan"),
    "vg": ("", ["--release"], "stress", "release", {}, "target"),
}
SAFE_FEATURES = ["safe_stack", "safe_active_fiber", "safe_vm_opcodes", "safe_class_lookup", "stress"]


def rel_subset_name(mask):
    return "rel-%02d" % mask


def config_spec(name):
    if name in CONFIGS:
        return CONFIGS[name]
    m = re.match(r"rel-(\d+)$", name)
    if m:
        mask = int(m.group(1))
        feats = ",".join(f for i, f in enumerate(SAFE_FEATURES) if mask & (1 << i))
        return ("", ["--release"], feats, "release", {}, "target")
    raise KeyError(name)


def binary(name):
    return os.path.join(BIN_DIR, "yv-" + name)


def _sync_harness():
    dst = os.path.join(BUILD_ROOT, "harness")
    os.makedirs(os.path.join(dst, "src"), exist_ok=True)
    src = os.path.join(VERIF, "harness")
    for fn in os.listdir(os.path.join(src, "src")):
        s = os.path.join(src, "src", fn)
        d = os.path.join(dst, "src", fn)
        data = open(s, "rb").read()
        if not os.path.exists(d) or open(d, "rb").read() != data:
            open(d, "wb").write(data)
    for fn in os.listdir(os.path.join(dst, "src")):
        if not os.path.exists(os.path.join(src, "src", fn)):
            os.remove(os.path.join(dst, "src", fn))
    toml = open(os.path.join(src, "Cargo.toml.in")).read().replace("@REPO@", os.path.abspath(REPO))
    d = os.path.join(dst, "Cargo.toml")
    if not os.path.exists(d) or open(d).read() != toml:
        open(d, "w").write(toml)
    lock = os.path.join(dst, "Cargo.lock")
    if not os.path.exists(lock):
        cand = os.path.join(REPO, "Cargo.lock")
        if not os.path.exists(cand):
            cand = os.path.join(src, "Cargo.lock.seed")
        shutil.copy(cand, lock)
    return dst


def build(names, quiet=True):
    """Build (incrementally) the runner in the given configurations from $VERIF_REPO's working
    tree. Serialised by a file lock. Returns {name: path}. Raises BuildError."""
    os.makedirs(BIN_DIR, exist_ok=True)
    os.makedirs(TMP_ROOT, exist_ok=True)
    lockf = open(os.path.join(BUILD_ROOT, ".buildlock"), "w")
    fcntl.flock(lockf, fcntl.LOCK_EX)
    try:
        hdir = _sync_harness()
        out = {}
        for name in names:
            toolchain, profile, feats, subdir, env_extra, tdir = config_spec(name)
            cmd = ["cargo"] + ([toolchain] if toolchain else []) + ["build", "--offline"] + profile
            if feats:
                cmd += ["--features", feats]
            env = dict(os.environ)
            env["CARGO_NET_OFFLINE"] = "true"
            env["CARGO_TARGET_DIR"] = os.path.join(BUILD_ROOT, tdir)
            env.update(env_extra)
            t0 = time.time()
            p = subprocess.run(cmd, cwd=hdir, env=env, stdout=subprocess.PIPE, stderr=subprocess.STDOUT)
            if p.returncode != 0:
                raise BuildError("build of %s failed:\n%s" % (name, p.stdout.decode(errors="replace")[-4000:]))
            produced = os.path.join(BUILD_ROOT, tdir, subdir, "yv")
            dst = binary(name)
            if (not os.path.exists(dst)) or os.path.getmtime(produced) > os.path.getmtime(dst) or \
                    os.path.getsize(produced) != os.path.getsize(dst) or _differs(produced, dst):
                shutil.copy2(produced, dst + ".tmp")
                os.replace(dst + ".tmp", dst)
            out[name] = dst
            if not quiet:
                print("built %s in %.1fs" % (name, time.time() - t0), flush=True)
        return out
    finally:
        fcntl.flock(lockf, fcntl.LOCK_UN)
        lockf.close()


def _differs(a, b):
    with open(a, "rb") as fa, open(b, "rb") as fb:
        while True:
            x = fa.read(1 << 20)
            y = fb.read(1 << 20)
            if x != y:
                return True
            if not x:
                return False


class BuildError(Exception):
    pass


class Inconclusive(Exception):
    pass


# ----------------------------------------------------------------------------- cases and batches

def mk_case(cid, steps, opts=None, mods=None, globals_=None):
    return {"id": cid, "steps": steps, "opts": dict(opts or {}), "mods": list(mods or []),
            "globals": list(globals_ or [])}


def snip(src):
    return ("snip", src)


def encode_case(case):
    out = bytearray()
    out += ("CASE %s\n" % case["id"]).encode()
    for k, v in case["opts"].items():
        out += ("SET %s %s\n" % (k, v)).encode()
    for path, src in case["mods"]:
        b = src.encode()
        out += ("MOD %s %d\n" % (path, len(b))).encode() + b + b"\n"
    for name, bits in case["globals"]:
        out += ("GLOBAL %s %016x\n" % (name, bits)).encode()
    for step in case["steps"]:
        kind = step[0]
        if kind == "snip":
            b = step[1].encode()
            out += ("SNIP %d\n" % len(b)).encode() + b + b"\n"
        elif kind == "compile":
            b = step[1].encode()
            out += ("COMPILE %d\n" % len(b)).encode() + b + b"\n"
        elif kind == "intern":
            b = step[1].encode()
            out += ("INTERN %d\n" % len(b)).encode() + b + b"\n"
        elif kind == "prefixes":
            b = step[1].encode()
            out += ("PREFIXES %d\n" % len(b)).encode() + b + b"\n"
        elif kind == "keep":
            b = step[1].encode()
            out += ("KEEP %d\n" % len(b)).encode() + b + b"\n"
        elif kind == "exec":
            out += ("EXEC %d\n" % step[1]).encode()
        elif kind == "native":
            out += ("NATIVE %s %s\n" % (step[1], step[2])).encode()
        elif kind == "getg":
            out += ("GETG %s %s\n" % (step[1], step[2])).encode()
        elif kind == "reset":
            out += b"RESET\n"
        elif kind == "stats":
            out += b"STATS\n"
        elif kind == "strstore":
            out += ("STRSTORE %d %d %s\n" % (step[1], step[2], step[3])).encode()
        else:
            raise ValueError(kind)
    out += b"END\n"
    return bytes(out)


CASE_TIMEOUT = float(os.environ.get("VERIF_CASE_TIMEOUT", "30"))


MEM_CAP_BYTES = int(os.environ.get("VERIF_MEM_CAP_GB", "4")) << 30


def _limit_memory():
    import resource
    resource.setrlimit(resource.RLIMIT_AS, (MEM_CAP_BYTES, MEM_CAP_BYTES))


def _run_proc(cmd, batch_path, timeout, env=None, case_timeout=None):
    """Run one runner process over a batch file, watching its output: the process is killed when
    the whole batch exceeds `timeout` or when one case stays in flight longer than `case_timeout`
    seconds (a generous multiple of the typical case time of 0.2-50 ms).
    Returns (results, begun_unfinished_id, status); status is ('ok',), ('timeout',) or
    ('exit', code, stderr head+tail)."""
    import selectors
    case_timeout = case_timeout or CASE_TIMEOUT
    errf = tempfile.TemporaryFile()
    # An address-space limit turns unbounded memory growth (a compile loop that appends an error message for ever,
    # say) into a prompt allocation failure attributed to the case, instead of 16 runners exhausting the machine.
    # Sanitizer, valgrind and Miri processes reserve terabytes of address space and are left alone.
    capped = os.path.basename(cmd[0]).startswith("yv-") and "asan" not in cmd[0] and (env or {}).get("ASAN_OPTIONS") is None
    p = subprocess.Popen(cmd + [batch_path], stdout=subprocess.PIPE, stderr=errf, env=env,
                         preexec_fn=_limit_memory if capped else None)
    sel = selectors.DefaultSelector()
    sel.register(p.stdout, selectors.EVENT_READ)
    os.set_blocking(p.stdout.fileno(), False)
    results = []
    begun = None
    done = False
    buf = b""
    t_start = time.time()
    t_case = time.time()
    timed_out = False
    eof = False
    while not eof:
        now = time.time()
        limit = min(t_start + timeout - now, (t_case + case_timeout - now) if begun is not None else 3600)
        if limit <= 0:
            timed_out = True
            p.kill()
            break
        ev = sel.select(timeout=min(limit, 1.0))
        if not ev:
            if p.poll() is not None:
                # process ended; drain what is left
                pass
            else:
                continue
        try:
            chunk = p.stdout.read()
        except BlockingIOError:
            chunk = None
        if chunk == b"" or (chunk is None and p.poll() is not None):
            eof = True
        if chunk:
            buf += chunk
            while True:
                k = buf.find(b"\n")
                if k < 0:
                    break
                line = buf[:k]
                buf = buf[k + 1:]
                if not line.strip():
                    continue
                try:
                    d = json.loads(line)
                except ValueError:
                    continue
                if "begin" in d:
                    begun = d["begin"]
                    t_case = time.time()
                elif "done" in d:
                    done = True
                elif "id" in d:
                    results.append(d)
                    if begun == d["id"]:
                        begun = None
    sel.close()
    try:
        p.wait(timeout=10)
    except subprocess.TimeoutExpired:
        p.kill()
        p.wait()
    code = p.returncode
    errf.seek(0)
    stderr = errf.read()
    errf.close()
    if timed_out:
        return results, begun, ("timeout",)
    if code != 0 or not done:
        text = stderr.decode(errors="replace")
        if len(text) > 9000:
            text = text[:6000] + "\n...\n" + text[-3000:]
        return results, begun, ("exit", code, text)
    return results, None, ("ok",)


# thorough-tier workload multiplier: the thorough counts in the checks are multiplied by this (1 = about 1-5 minutes per
# check on 16 cores, 3 = the default, about 5-15 minutes per check)
TS = int(os.environ.get("VERIF_THOROUGH_SCALE", "3"))
ABORT_CAP = int(os.environ.get("VERIF_ABORT_CAP", "48"))


def run_batch(cfg, cases, shards=None, timeout=600, wrapper=None, env=None, keep_order=True, cmd=None, case_timeout=None, _retry=False,
              abort_cap=None, retry_timeouts=True):
    """Run cases on the runner built in configuration cfg, sharded over processes.
    Every case gets a result dict; abnormal ends are attributed to exactly one case:
    result['abort'] = {'why': 'signal'|'exit'|'timeout', ...}."""
    if not cases:
        return []
    if cmd is None:
        exe = binary(cfg)
        cmd = (wrapper or []) + [exe]
    shards = min(shards or NCPU, len(cases))
    groups = [[] for _ in range(shards)]
    # contiguous blocks keep "kept Vm" histories together; round-robin balances load: use blocks
    per = (len(cases) + shards - 1) // shards
    for i, c in enumerate(cases):
        groups[min(i // per, shards - 1)].append(c)
    os.makedirs(TMP_ROOT, exist_ok=True)
    tmpdir = tempfile.mkdtemp(prefix="batch-", dir=TMP_ROOT)
    results = {}
    try:
        pending = [(gi, g) for gi, g in enumerate(groups) if g]
        round_no = 0
        aborts = 0
        while pending:
            if aborts >= (abort_cap or ABORT_CAP):
                # a tree on which this many cases kill or hang the runner is broken beyond doubt: do not spend a
                # watchdog period on each of the remaining cases (they are marked not-run, never judged)
                for gi, group in pending:
                    for c in group:
                        results.setdefault(c["id"], {"id": c["id"], "steps": [], "abort": {
                            "why": "not-run", "status": ["not-run", "%d cases had already killed or hung the runner" % aborts]}})
                break
            procs = []
            for gi, group in pending:
                path = os.path.join(tmpdir, "b%d-%d.txt" % (gi, round_no))
                with open(path, "wb") as f:
                    for c in group:
                        f.write(encode_case(c))
                procs.append((gi, group, path))
            outs = _parallel(cmd, procs, timeout, env, case_timeout)
            nxt = []
            for (gi, group, path), (res, begun, status) in zip(procs, outs):
                for r in res:
                    results[r["id"]] = r
                if status[0] == "ok":
                    continue
                ids = [c["id"] for c in group]
                if begun is None:
                    # died outside any case (start-up or shutdown)
                    missing = [c for c in group if c["id"] not in results]
                    if not missing:
                        # all cases finished; the process died at shutdown: attribute to the last one
                        last = ids[-1]
                        results[last].setdefault("abort_at_exit", {"status": list(status)})
                        continue
                    begun = missing[0]["id"]
                idx = ids.index(begun)
                why = "timeout" if status[0] == "timeout" else "exit"
                results[begun] = {"id": begun, "steps": [], "abort": {"why": why, "status": list(status)}}
                aborts += 1
                rest = group[idx + 1:]
                if rest:
                    nxt.append((gi, rest))
            pending = nxt
            round_no += 1
    finally:
        shutil.rmtree(tmpdir, ignore_errors=True)
    # A runner that dies with an allocation failure may have run into the address-space cap because of what the cases
    # before it left behind (quarantined objects, allocator fragmentation): such a case is judged on a run of its own.
    if not _retry:
        again = [c for c in cases if "memory allocation of" in str(results.get(c["id"], {}).get("abort", {}).get("status", ""))]
        for c in again[:32]:
            results[c["id"]] = run_batch(cfg, [c], shards=1, timeout=timeout, wrapper=wrapper, env=env, cmd=cmd,
                                         case_timeout=case_timeout, _retry=True)[0]
    # A case that hit the per-case watchdog is judged on a run of its own with four times the allowance before anybody
    # believes it: on a loaded machine (other checks, builds, sixteen shards) a case that normally takes seconds can
    # exceed the watchdog without hanging. Only what times out again alone stays a timeout.
    if not _retry and retry_timeouts:
        slow = [c for c in cases if results.get(c["id"], {}).get("abort", {}).get("why") == "timeout"]
        # (only when the batch had one or two of them: that is what load does to a healthy tree; a batch in which many
        # cases hang is a broken tree, and a second opinion on each would cost minutes without changing the verdict)
        def alone(c):
            r2 = run_batch(cfg, [c], shards=1, timeout=max(timeout, 600), wrapper=wrapper, env=env, cmd=cmd,
                           case_timeout=4 * (case_timeout or CASE_TIMEOUT), _retry=True)[0]
            if "abort" in r2 and r2["abort"].get("why") == "timeout":
                r2["abort"]["status"] = list(r2["abort"].get("status", [])) + ["timed out again when run alone"]
            results[c["id"]] = r2
            return "abort" in r2 and r2["abort"].get("why") == "timeout"
        if len(slow) <= 2:
            for c in slow:
                alone(c)
        else:
            # many time-outs: a broken tree - or a machine carrying a load far above its cores (false alarm of C06 thorough
            # while seven seeded-change shards and four thorough tiers ran: a 0.5 s program). The first three decide which:
            # if none of them times out on its own, the time-outs say nothing about the tree; up to 40 more get a run of
            # their own and the rest are marked not-run (never judged, the check ends inconclusive).
            if not any([alone(c) for c in slow[:3]]):
                for i, c in enumerate(slow[3:]):
                    if i < 40:
                        alone(c)
                    else:
                        results[c["id"]] = {"id": c["id"], "abort": {"why": "not-run", "status": ["not-run", "watchdog fired on a machine where time-outs did not reproduce"]}}
    missing = [c["id"] for c in cases if c["id"] not in results]
    if missing:
        raise Inconclusive("runner produced no result for %d cases (e.g. %s)" % (len(missing), missing[0]))
    return [results[c["id"]] for c in cases]


def _parallel(cmd, procs, timeout, env, case_timeout=None):
    import concurrent.futures
    with concurrent.futures.ThreadPoolExecutor(max_workers=max(1, min(len(procs), NCPU))) as ex:
        futs = [ex.submit(_run_proc, cmd, path, timeout, env, case_timeout) for (_, _, path) in procs]
        return [f.result() for f in futs]


def batch_timeout(tier, n_cases, per_case=0.5, floor=None):
    """wall-clock limit for one runner process: a floor far above the typical shard time plus a
    per-case allowance (the typical case takes 0.2-10 ms)"""
    if floor is None:
        floor = 120 if tier == "quick" else 600
    return floor + per_case * n_cases


def confirmed_hang(cfg, case, timeout=60, wrapper=None, env=None):
    """re-run a case that hit the watchdog alone, twice: True only if it times out both times"""
    runs = confirm_abort(cfg, case, timeout=timeout, wrapper=wrapper, env=env, tries=2)
    return all("abort" in r and r["abort"]["why"] == "timeout" for r in runs)


def confirm_abort(cfg, case, timeout=120, wrapper=None, env=None, tries=2):
    """Re-run a case alone; returns list of results (one per try)."""
    out = []
    for _ in range(tries):
        out.append(run_batch(cfg, [case], shards=1, timeout=timeout, wrapper=wrapper, env=env)[0])
    return out


# ----------------------------------------------------------------------------- result helpers

def step_lines(step):
    """printed texts of a snippet step, split into lines the way the repository's test runner does"""
    lines = []
    for text in step.get("out", []):
        lines.extend(text.split("\n") if text != "" else [""])
    return lines


def outcome_of(result):
    """compact, address-normalised description of a case result for equality comparisons"""
    if "abort" in result:
        return ("abort", result["abort"]["why"])
    if result.get("harness_panic"):
        return ("harness_panic", result.get("panic_msg"))
    desc = []
    for st in result.get("steps", []):
        k = st.get("k")
        if k in ("snip", "compile"):
            entry = [k, st.get("res")]
            if k == "snip":
                entry.append([norm(t) for t in st.get("out", [])])
            if st.get("res") == "err":
                entry.append(st.get("kind"))
                entry.append([norm(m) for m in st.get("msgs", [])])
            if st.get("res") == "panic":
                entry.append(st.get("panic_msg"))
            desc.append(entry)
        elif k == "reset":
            desc.append([k, st.get("res")])
    return ("ran", json.dumps(desc, sort_keys=True))


def witness_view(result):
    """what a witness expectation records of a result: per step printed lines, outcome, error kind
    and messages (addresses normalised)"""
    if "abort" in result:
        return [{"abort": result["abort"]["why"]}]
    view = []
    for st in result.get("steps", []):
        e = {"k": st.get("k"), "res": st.get("res")}
        if "out" in st:
            e["out"] = [norm(t) for t in st["out"]]
        if st.get("res") == "err":
            e["kind"] = st.get("kind")
            e["msgs"] = [norm(m) for m in st.get("msgs", [])]
        if st.get("res") == "panic":
            e["panic"] = st.get("panic_msg")
        view.append(e)
    return view


def replay_witnesses(ck, cfgs, opts_by_cfg=None):
    """regression cases: the pinned inputs of fixed defects (witness/<property>-*.json) must still
    behave as recorded on every given build configuration, with silent monitors"""
    wdir = os.path.join(VERIF, "witness")
    names = sorted(f for f in os.listdir(wdir) if f.startswith(ck.prop + "-") and f.endswith(".json"))
    for cfg in cfgs:
        cases = []
        ws = []
        for f in names:
            w = json.load(open(os.path.join(wdir, f)))
            opts = (opts_by_cfg or {}).get(cfg, {"gc": "always", "quarantine": 1, "audit": 1} if cfg.startswith("hook") else {})
            cases.append(mk_case("w:" + w["name"], [tuple(s) for s in w["steps"]], opts, [tuple(m) for m in w["mods"]]))
            ws.append(w)
        if not cases:
            continue
        for w, res in zip(ws, run_batch(cfg, cases, timeout=300)):
            ck.evaluations += 1
            ck.count("witnesses_replayed")
            view = witness_view(res)
            if view != w["expect"]:
                ck.violation("WitnessRegressed(%s)" % w["name"], {"witness": w["name"], "what": w["what"], "config": cfg,
                                                                   "expected": w["expect"], "observed": view,
                                                                   "steps": w["steps"], "mods": w["mods"]})
            for ev in res.get("events", []):
                ck.violation("WitnessRegressed(%s)" % w["name"], {"witness": w["name"], "what": w["what"], "config": cfg,
                                                                   "event": ev, "steps": w["steps"], "mods": w["mods"]})


def replay_known(ck, cfg="hook", opts=None):
    """the pinned witnesses of the open known findings of this property: a behavioural finding is
    keyed on its exact witness input; it is reported as KNOWN-FINDING while the witness still
    disagrees with the reference model, and as stale (still exit 0) once it no longer does"""
    from .checks import modelcheck
    entries = [k for k in ck.findings.for_property(ck.prop) if k.get("witness", "").startswith("witness/known/")]
    if not entries:
        return
    progs = []
    for k in entries:
        w = json.load(open(os.path.join(VERIF, k["witness"])))
        progs.append({"name": w["name"], "steps": [tuple(s) for s in w["steps"]], "mods": [tuple(m) for m in w["mods"]],
                      "natives": w.get("natives")})
    models = modelcheck.run_models(progs)
    base = opts or {"gc": "always", "quarantine": 1}
    cases = [mk_case("k%d" % i, p["steps"], dict(base, natives=1 if p.get("natives") else 0), p["mods"])
             for i, p in enumerate(progs)]
    results = run_batch(cfg, cases, timeout=300)
    for k, p, m, res in zip(entries, progs, models, results):
        ck.count("known_witnesses_replayed")
        differs = "abort" in res or "view" not in m
        if not differs:
            for ms, rs in zip(m["view"], res["steps"]):
                if modelcheck.compare_step(ms, rs):
                    differs = True
                    break
        if differs:
            ck.known(k.get("id"), k.get("text"))
        else:
            print("NOTE: known finding %s no longer reproduces on this tree (stale entry)" % k.get("id"), flush=True)


def panics_of(result):
    out = []
    if result.get("harness_panic") or result.get("vm_new") == "panic" or result.get("drop") == "panic":
        out.append((result.get("panic_msg", "?"), result.get("panic_loc", "?")))
    for st in result.get("steps", []):
        if st.get("res") == "panic":
            out.append((st.get("panic_msg", "?"), st.get("panic_loc", "?")))
    return out


# ----------------------------------------------------------------------------- known findings

class Findings:
    """KNOWN_FINDINGS.txt: never written at run time.
       known: property=C08 id=K1 sig=<signature> [witness=<file>] [avoid=<tag>] :: <what fails>
       fixed: property=C01 <commit> <what failed>"""

    def __init__(self, path=None):
        self.known = []
        self.fixed = []
        path = path or os.path.join(VERIF, "KNOWN_FINDINGS.txt")
        if not os.path.exists(path):
            return
        for line in open(path):
            line = line.strip()
            if not line or line.startswith("#"):
                continue
            if line.startswith("known:"):
                head, _, text = line[len("known:"):].partition("::")
                fields = {}
                for tok in head.split():
                    if "=" in tok:
                        k, v = tok.split("=", 1)
                        fields[k] = v
                fields["text"] = text.strip()
                self.known.append(fields)
            elif line.startswith("fixed:"):
                self.fixed.append(line)

    def for_property(self, prop):
        return [k for k in self.known if k.get("property") == prop]

    def avoid_tags(self):
        tags = set()
        for k in self.known:
            for t in k.get("avoid", "").split(","):
                if t:
                    tags.add(t)
        return tags

    def match(self, prop, signature):
        for k in self.known:
            if k.get("property") == prop and k.get("sig") == signature:
                return k
        return None


def sig_hash(text):
    return hashlib.sha1(text.encode()).hexdigest()[:12]


# ----------------------------------------------------------------------------- check context

class Check:
    def __init__(self, prop, tier):
        self.prop = prop
        self.tier = tier
        self.seed = seed()
        self.t0 = time.time()
        self.findings = Findings()
        self.violations = []   # (signature, replay path)
        self.violation_sigs = {}
        self.known_hit = {}    # id -> text
        self.inconclusive = []
        self.coverage = {}
        self.samples = []
        self.evaluations = 0
        self.nontrivial = set()
        self.assumptions = []
        self.rng = Rng(self.seed, prop)

    def log(self, msg):
        print("[%s %s %.0fs] %s" % (self.prop, self.tier, time.time() - self.t0, msg), flush=True)

    def count(self, key, n=1):
        self.coverage[key] = self.coverage.get(key, 0) + n

    def note_nontrivial(self, text):
        self.nontrivial.add(hashlib.sha1(text.encode()).digest()[:8])

    def sample(self, obj, limit=6):
        if len(self.samples) < limit:
            self.samples.append(obj)

    def violation(self, signature, replay):
        """signature: monitor-specific string; replay: dict written to /verif/replay"""
        blob = signature
        if isinstance(replay, dict):
            blob += " " + str(replay.get("what", "")) + " " + str(replay.get("problem", ""))
        if "not-run" in blob:
            if not any("not run" in x for x in self.inconclusive):
                self.inconclusive.append("some cases were not run because too many earlier cases killed or hung the runner")
            return False
        k = self.findings.match(self.prop, signature)
        if k is not None:
            self.known_hit[k.get("id", signature)] = k.get("text", "")
            return False
        if signature in self.violation_sigs:
            self.violation_sigs[signature] += 1
            return True
        self.violation_sigs[signature] = 1
        if len(self.violations) >= 25:
            return True
        os.makedirs(os.path.join(VERIF, "replay"), exist_ok=True)
        name = "%s-%s.json" % (self.prop, sig_hash(signature + json.dumps(replay, sort_keys=True, default=str)[:2000]))
        path = os.path.join(VERIF, "replay", name)
        replay = dict(replay)
        replay["property"] = self.prop
        replay["signature"] = signature
        replay["seed"] = self.seed
        replay["tier"] = self.tier
        with open(path, "w") as f:
            json.dump(replay, f, indent=1, default=str)
        self.violations.append((signature, path))
        print("VIOLATION property=%s replay=%s" % (self.prop, path), flush=True)
        print("  signature: %s" % signature, flush=True)
        return True

    def known(self, kid, text):
        self.known_hit[kid] = text

    def finish(self, rule, level="exploration", extra=None, exhaustive=None):
        wall = time.time() - self.t0
        cov = dict(self.coverage)
        cov["evaluations"] = int(self.evaluations)
        cov["distinct_nontrivial"] = len(self.nontrivial)
        cov["rule"] = rule
        cov["samples"] = self.samples if self.samples else ["<none>"]
        if exhaustive is not None:
            cov["exhaustive"] = bool(exhaustive)
        if extra:
            cov.update(extra)
        cov["known_findings_hit"] = sorted(self.known_hit)
        if self.inconclusive:
            cov["inconclusive"] = self.inconclusive[:10]
        ev = {"property_id": self.prop, "tier": self.tier, "seed": self.seed, "level": level,
              "coverage": cov, "assumptions": self.assumptions, "wall_s": round(wall, 2),
              "violations": len(self.violations)}
        # VERIF_EVIDENCE_DIR: where runs against a scratch copy of the repository (seeded-change evaluation) put their
        # evidence, so that they never overwrite the evidence of the registered checks
        evdir = os.environ.get("VERIF_EVIDENCE_DIR") or os.path.join(VERIF, "evidence")
        os.makedirs(evdir, exist_ok=True)
        path = os.path.join(evdir, "%s.json" % self.prop)
        with open(path + ".tmp", "w") as f:
            json.dump(ev, f, indent=1, default=str)
        os.replace(path + ".tmp", path)
        for kid, text in sorted(self.known_hit.items()):
            print("KNOWN-FINDING: property=%s %s [%s]" % (self.prop, text, kid), flush=True)
        if self.violations:
            self.log("FAILED: %d violation(s)" % len(self.violations))
            return 1
        if self.inconclusive:
            for msg in self.inconclusive[:10]:
                print("INCONCLUSIVE property=%s %s" % (self.prop, msg), flush=True)
            return 2
        if cov["evaluations"] < 1 or cov["distinct_nontrivial"] < 2:
            print("INCONCLUSIVE property=%s the monitors observed too little (evaluations=%d, non-trivial=%d)" %
                  (self.prop, cov["evaluations"], cov["distinct_nontrivial"]), flush=True)
            return 2
        self.log("held on everything explored: %d evaluations, %d distinct non-trivial, %.1fs" %
                 (cov["evaluations"], cov["distinct_nontrivial"], wall))
        return 0


def scripts_corpus():
    """(name, source) for every script of the repository's test corpus, plus the module table the
    test suite's loader serves (paths relative to tests/scripts without extension)."""
    root = os.path.join(REPO, "yarel", "tests", "scripts")
    scripts = []
    for dirpath, _, files in sorted(os.walk(root)):
        for fn in sorted(files):
            if fn.endswith(".yl"):
                p = os.path.join(dirpath, fn)
                rel = os.path.relpath(p, root)[:-3]
                try:
                    scripts.append((rel, open(p, encoding="utf-8").read()))
                except UnicodeDecodeError:
                    pass
    mods = [(name, src) for name, src in scripts if name.startswith("modules/")]
    return scripts, mods


def expected_of(source):
    """expected output lines encoded in the leading comment block of a corpus script"""
    lines = []
    for l in source.split("\n"):
        if l.startswith("// "):
            lines.append(l[3:])
        else:
            break
    if lines:
        lines.pop()
    return lines
