"""C09 - fibers transfer control and values faithfully and keep their own state.

Oracle A: the reference model runs every fiber as a coroutine with exact value hand-over; generated
programs create up to 4 fibers whose bodies yield from loops, helper frames and try blocks, call
other fibers, are abandoned while suspended, and are driven by a seeded call script including every
misuse. Oracle B (model-free): programs of the control-flow, class and scope profiles print the same
when their whole body is moved into a fiber that is called once."""
from .. import common
from ..common import Check, mk_case, snip
from ..gen import progs
from . import modelcheck, C06


def profiles(avoid):
    P = progs.Profile
    return [
        ("fibers", P(w=dict(var=4, assign=3, print=4, if_=2, while_=1, for_=1, block=1, fn=2, call=2, lam=1, opassign=1,
                            brk=0, cont=0, ret=1, setitem=0, fiber=30), probe=5, expr_depth=2, max_depth=2, stmts=(2, 6),
                     avoid=avoid)),
    ]


def run(tier):
    ck = Check("C09", tier)
    quick = tier == "quick"
    common.build(["hook", "hookfast", "rel"])
    common.replay_witnesses(ck, ["hook"])
    common.replay_known(ck)
    avoid = ck.findings.avoid_tags()
    n = 2500 if quick else 60000 * common.TS
    plist = []
    for name, prof in profiles(avoid):
        rng = ck.rng.fork(name)
        for i in range(n):
            src, mods = progs.generate(rng.fork(str(i)), prof)
            plist.append({"name": "%s/%d" % (name, i), "steps": [("snip", src)], "mods": mods})

    from ..gen import feat_fiber as _ff
    rxf = ck.rng.fork("xmodfib")
    for i in range(250 if quick else 8000 * common.TS):
        _src, _mods = _ff.xmod_fiber_program(rxf.fork(str(i)))
        plist.append({"name": "xmodfiber/%d" % i, "steps": [("snip", _src)], "mods": _mods})

    from ..gen import feat_exc as _fe
    rli = ck.rng.fork("locals")
    for i in range(250 if quick else 8000 * common.TS):
        plist.append({"name": "locals/%d" % i, "steps": [("snip", _fe.local_integrity_program(rli.fork(str(i))))], "mods": []})

    def seen(p, m, res):
        v = m["view"][0]
        src = p["steps"][0][1]
        if "Fiber.new" in src and len(v["out"]) >= 3:
            ck.note_nontrivial(src)
        ck.count("model_outcome_" + v["res"])
        ck.count("fiber_call_sites", src.count(".call("))
        if len(ck.samples) < 3 and src.count("Fiber.new") >= 2 and len(v["out"]) > 5:
            ck.sample({"program": p["name"], "source": src[:1200], "expected_output": v["out"][:12]})

    from ..gen import feat_fiber as _ffp
    rpr = ck.rng.fork("pendingreturn")
    for i in range(250 if quick else 6000 * common.TS):
        plist.append({"name": "pendingreturn/%d" % i, "steps": [("snip", _ffp.pending_return_program(rpr.fork(str(i))))], "mods": []})
    # interplay: this check's programs inside stacks of other features' constructs, and every profile's programs inside
    # this feature's constructs (vfpy/gen/feat_ctx.py); the model decides what they must print
    from ..gen import feat_ctx as _ctx
    for _p in _ctx.interplay(ck.rng.fork("interplay"), profiles(avoid), "C09", *((300, 300) if quick else (3000 * common.TS, 3000 * common.TS))):
        for _c in _p["ctx"]:
            ck.count("nesting_context_" + _c)
        plist.append(_p)
    # size ladders: this property's sized things at every size of a ladder straddling powers of two (vfpy/gen/feat_scale.py)
    from ..gen import feat_scale as _scale
    for _p in _scale.programs("C09", ck.rng.fork("scale"), quick):
        ck.count("scale_programs")
        ck.count("scale_template_" + _p["scale"][0])
        plist.append(_p)
    # also on the builds whose active-fiber access is the raw pointer (unchecked fast paths): hooked (dispatch monitor
    # asserts at every instruction that the raw pointer denotes the rooted active fiber) and plain release
    checked, discarded = modelcheck.check_programs(ck, plist, on_result=seen, opts={"gc": "always", "quarantine": 1, "dispatch": 1},
                                                   extra_cfgs=("hookfast", "rel"),
                                                   # of the dispatch monitor's checks only the fiber-pointer ones belong here (the
                                                   # operand-level contract is C04's, with its own known findings)
                                                   event_filter=lambda ev: not ev["sig"].startswith("Dispatch(") or ev["sig"] in (
                                                       "Dispatch(RawFiberPointerIncoherent)", "Dispatch(ActiveChunkNotFrameChunk)"))
    ck.coverage["programs_checked"] = checked
    ck.coverage["programs_discarded_by_model"] = discarded
    # relation B: body moved into a fiber that is called once
    from ..gen import profiles as allp
    others = [(nm, pr) for nm, pr in allp.all_profiles(avoid) if nm.split(".")[0] in ("C05", "C07")]
    cases = []
    meta = {}
    rng = ck.rng.fork("relB")
    for i in range(600 if quick else 20000 * common.TS):
        nm, pr = others[i % len(others)]
        src, mods = progs.generate(rng.fork(str(i)), pr)
        for how in ("plain", "fiber"):
            cid = "b%d|%s" % (i, how)
            meta[cid] = (src, mods)
            text = src if how == "plain" else C06.wrap(src, "fiber")
            cases.append(mk_case(cid, [snip(text)], {"gc": "always", "quarantine": 1}, mods))
    results = common.run_batch("hook", cases, timeout=common.batch_timeout(tier, len(cases) / 8))
    byid = {c["id"]: r for c, r in zip(cases, results)}
    for cid, res in byid.items():
        if not cid.endswith("|fiber"):
            continue
        plain = byid[cid.replace("|fiber", "|plain")]
        ck.evaluations += 2
        ck.count("moved_into_fiber_pairs")
        if "abort" in res or "abort" in plain:
            if ("abort" in res) != ("abort" in plain):
                ck.violation("FiberWrappingChangesBehaviour(abort)", {"source": meta[cid][0], "what": str(res.get("abort"))})
            continue
        a, b = C06.visible_part(plain), C06.visible_part(res)
        if plain["steps"][0].get("kind") == "CompileError" or res["steps"][0].get("kind") == "CompileError":
            continue
        if a != b:
            ck.violation("FiberWrappingChangesBehaviour", {"source": meta[cid][0], "what": "body moved into a fiber prints differently",
                                                           "expected": a, "observed": b})
    return ck.finish("programs from the fibers profile against the coroutine model (oracle A) and programs of the "
                     "control-flow / class profiles run plain and moved into a fiber (oracle B); fibers handing out accessors to their locals in every capture order, abandoned or resumed later; non-trivial = distinct "
                     "program creating a fiber that printed at least three lines")


def replay(data):
    if "steps" in data:
        return modelcheck.replay_generic(data, "C09")
    return 1
