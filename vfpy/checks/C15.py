"""C15 - an interpreter can be reused: failed runs leave no residue.

Oracle A over histories: sequences of up to ~20 snippets on one Vm mixing definitions, statements,
compile errors, uncaught errors from top level / nested calls / inside fibers / inside try-finally /
during class declarations / during imports, imports, and reset(); after failing snippets a fixed
probe battery (try/finally, fiber round trip, class definition, import, closure counter, exception
round trip, iterator chain). The model keeps one global environment and registry. Run on the hooked
build and on the dev build (debug assertions are part of 'never makes a later snippet panic').
Host-API histories: sources compiled once, kept by the host and executed repeatedly (also after reset()), natives
defined in existing and not-yet-existing modules and read back, mixed with ordinary snippets."""
from .. import common
from ..common import Check
from ..gen import feat_repl
from . import modelcheck


def run(tier):
    ck = Check("C15", tier)
    quick = tier == "quick"
    common.build(["hook", "dev"])
    common.replay_witnesses(ck, ["hook", "dev"])
    common.replay_known(ck)
    n = 1200 if quick else 40000 * common.TS
    rng = ck.rng.fork("hist")
    plist = []
    for i in range(n):
        steps, mods = feat_repl.history(rng.fork(str(i)))
        plist.append({"name": "hist/%d" % i, "steps": steps, "mods": mods})

    r3 = ck.rng.fork("hist2")
    for i in range(300 if quick else 10000 * common.TS):
        steps, mods = feat_repl.history2(r3.fork(str(i)))
        plist.append({"name": "hist2/%d" % i, "steps": steps, "mods": mods})
    r2 = ck.rng.fork("host")
    for i in range(300 if quick else 10000 * common.TS):
        steps, mods = feat_repl.host_history(r2.fork(str(i)))
        plist.append({"name": "host/%d" % i, "steps": steps, "mods": mods})

    r6 = ck.rng.fork("repeat")
    for i in range(36 if quick else 1200 * common.TS):
        steps, mods = feat_repl.repeat_history(r6.fork(str(i)))
        plist.append({"name": "repeat/%d" % i, "steps": steps, "mods": mods, "budget": 9000000})
        ck.count("repeated_failure_snippets", len(steps))
    r5 = ck.rng.fork("long")
    for i in range(40 if quick else 1500 * common.TS):
        steps, mods = feat_repl.long_history(r5.fork(str(i)))
        plist.append({"name": "long/%d" % i, "steps": steps, "mods": mods, "budget": 6000000})
        ck.count("long_history_snippets", len(steps))

    def seen(p, m, res):
        fails = sum(1 for s in m["view"] if s.get("res") in ("error", "compile_error"))
        ck.count("snippets_run", len(m["view"]))
        ck.count("failing_snippets", fails)
        ck.count("resets", sum(1 for s in p["steps"] if s[0] == "reset"))
        ck.count("host_api_steps", sum(1 for s in p["steps"] if s[0] in ("keep", "exec", "native", "getg")))
        if fails >= 1:
            ck.note_nontrivial(repr(p["steps"]))
        for st in res.get("steps", []):
            state = st.get("state")
            if state and st.get("k") == "snip":
                ck.count("state_probes")
                if state.get("handlers") or state.get("frames") or state.get("stack_len"):
                    ck.count("state_probes_with_residue_in_failed_fiber")
        if len(ck.samples) < 2 and fails >= 2:
            ck.sample({"snippets": [s[1][:160] if s[0] == "snip" else "<reset>" for s in p["steps"][:6]],
                       "expected": [(s.get("res"), s.get("out", [])[:4]) for s in m["view"][:6]]})

    checked, discarded = modelcheck.check_programs(ck, plist, on_result=seen, extra_cfgs=("dev",))
    ck.coverage["histories_checked"] = checked
    ck.coverage["histories_discarded_by_model"] = discarded
    return ck.finish("snippet histories (3-12 generated snippets plus probe batteries) on one interpreter, compared "
                     "step by step with the model on the hooked and the dev build; incl. failing statements that must leave no binding, closures over frames killed by the failure, probes of the fibers of a failed run, and globals of every kind across reset(); non-trivial = distinct history "
                     "containing at least one failing snippet")


def replay(data):
    return modelcheck.replay_generic(data, "C15")
