"""C08 - exceptions reach the innermost active handler; finally always runs.

Oracle A: nestings of try/catch/finally with loops, functions and closures; throw sites explicit,
from built-in failures (each error class) and from callees; every exit path from each block; locals
declared before, inside and after the statement and read afterwards. The reference model keeps a
handler discipline per fiber and runs finally exactly once per exit. Constructs listed as known
findings are not generated (avoid tags); their pinned witnesses are replayed instead."""
from .. import common
from ..common import Check
from ..gen import feat_exc, progs
from . import modelcheck


def profiles(avoid):
    P = progs.Profile
    return [
        ("exc", P(w=dict(var=8, assign=5, print=8, if_=4, while_=3, for_=3, block=2, fn=6, call=6, lam=2, opassign=2,
                         brk=3, cont=3, ret=5, setitem=1, try_=14, throw=5, tryfn=5), probe=10, expr_depth=2, max_depth=4,
                  stmts=(4, 12), uncaught=25, avoid=avoid)),
        ("exc-flat", P(w=dict(var=6, assign=4, print=8, if_=2, while_=1, for_=1, block=1, fn=3, call=4, lam=1, opassign=1,
                              brk=1, cont=1, ret=3, setitem=0, try_=20, throw=6, tryfn=8), probe=5, expr_depth=1, max_depth=3,
                       stmts=(3, 9), uncaught=25, avoid=avoid)),
    ]


def run(tier):
    ck = Check("C08", tier)
    quick = tier == "quick"
    common.build(["hook"])
    common.replay_witnesses(ck, ["hook"])
    common.replay_known(ck)
    avoid = ck.findings.avoid_tags()
    n = 1500 if quick else 40000 * common.TS
    plist = []
    for name, prof in profiles(avoid):
        rng = ck.rng.fork(name)
        for i in range(n):
            src, mods = progs.generate(rng.fork(str(i)), prof)
            plist.append({"name": "%s/%d" % (name, i), "steps": [("snip", src)], "mods": mods})

    r2 = ck.rng.fork("xmod")
    for i in range(400 if quick else 10000 * common.TS):
        src, mods = feat_exc.xmod_program(r2.fork(str(i)))
        plist.append({"name": "xmod/%d" % i, "steps": [("snip", src)], "mods": mods})

    r3 = ck.rng.fork("locals")
    for i in range(500 if quick else 15000 * common.TS):
        plist.append({"name": "locals/%d" % i, "steps": [("snip", feat_exc.local_integrity_program(r3.fork(str(i))))], "mods": []})

    r5 = ck.rng.fork("finpaths")
    for i in range(400 if quick else 10000 * common.TS):
        plist.append({"name": "finpaths/%d" % i, "steps": [("snip", feat_exc.finally_paths_program(r5.fork(str(i))))], "mods": []})
    # exception state must not leak from one run into the next on the same interpreter (uncaught throws of every kind
    # followed by try / finally in later snippets)
    from ..gen import feat_repl
    r4 = ck.rng.fork("runs")
    for i in range(200 if quick else 6000 * common.TS):
        steps, hm = feat_repl.history(r4.fork(str(i)))
        plist.append({"name": "runs/%d" % i, "steps": steps, "mods": hm})

    def seen(p, m, res):
        v = m["view"][0]
        if v.get("k") != "snip":
            return
        src = p["steps"][0][1]
        if "catch" in src and any(t in ("caught", "<class TypeError>", "true", "false") or t.startswith("<class") for t in v["out"]) \
                and any(t.startswith("finally") for t in v["out"]):
            ck.note_nontrivial(src)
        elif p["name"].startswith("xmod/") and len(v["out"]) >= 4:
            ck.note_nontrivial(src)
            ck.count("cross_module_programs")
        ck.count("model_outcome_" + v["res"])
        ck.count("finally_blocks_run", sum(1 for t in v["out"] if t.startswith("finally")))
        if len(ck.samples) < 3 and len(v["out"]) > 3 and "finally" in src:
            ck.sample({"program": p["name"], "source": src[:800], "expected_output": v["out"][:10], "expected_outcome": v["res"]})

    # try statements whose try and catch blocks add up to around and beyond 64 KiB of code (each below its own limit)
    from ..gen import limits as _limits
    for _n, _s in _limits.handler_sum_family():
        plist.append({"name": _n, "steps": [("snip", _s)], "mods": [], "budget": 6000000})
    from ..gen import feat_fiber as _ffp
    rpr = ck.rng.fork("pendingreturn")
    for i in range(150 if quick else 6000 * common.TS):
        plist.append({"name": "pendingreturn/%d" % i, "steps": [("snip", _ffp.pending_return_program(rpr.fork(str(i))))], "mods": []})
    # interplay: this check's programs inside stacks of other features' constructs, and every profile's programs inside
    # this feature's constructs (vfpy/gen/feat_ctx.py); the model decides what they must print
    from ..gen import feat_ctx as _ctx
    for _p in _ctx.interplay(ck.rng.fork("interplay"), profiles(avoid), "C08", *((300, 300) if quick else (3000 * common.TS, 3000 * common.TS))):
        for _c in _p["ctx"]:
            ck.count("nesting_context_" + _c)
        plist.append(_p)
    # size ladders: this property's sized things at every size of a ladder straddling powers of two (vfpy/gen/feat_scale.py)
    from ..gen import feat_scale as _scale
    for _p in _scale.programs("C08", ck.rng.fork("scale"), quick):
        ck.count("scale_programs")
        ck.count("scale_template_" + _p["scale"][0])
        plist.append(_p)
    checked, discarded = modelcheck.check_programs(ck, plist, on_result=seen)
    ck.coverage["programs_checked"] = checked
    ck.coverage["programs_discarded_by_model"] = discarded
    ck.coverage["avoid_tags_in_force"] = sorted(t for t in avoid if t.startswith("exc."))
    return ck.finish("programs from the exc profiles (try/catch/finally nestings with loops, functions, closures, "
                     "explicit and built-in throw sites), exceptions crossing module boundaries in both directions, and 44 kinds of failing call made next to locals that are printed afterwards, compared with the reference model; non-trivial = distinct "
                     "program in which an exception was delivered to a catch block and a finally block ran")


def replay(data):
    if "witness" in data:
        return 1
    return modelcheck.replay_generic(data, "C08")
