"""C17 - errors carry the right class, message and source lines.

Oracle A with full messages: programs laid out one statement per line whose failing statement, call
chain (functions, methods, static methods, lambdas, functions of imported modules, fibers) and failure
(each built-in error class from an operator / native / statement, explicit throw of values and of
error instances, host natives failing with each ErrorKind) are chosen by the generator; expected:
Error.kind(), `Unhandled <Class>: <text>`, one trace line per active call innermost first with
module, function and line; the same failure caught reports type(e) and e.context. Compile errors: one
bad token injected on a known line of an otherwise valid program (after multi-line strings and comments)."""
from .. import common
from ..common import Check
from ..gen import feat_err
from . import modelcheck


def run(tier):
    ck = Check("C17", tier)
    quick = tier == "quick"
    common.build(["hook"])
    common.replay_witnesses(ck, ["hook"])
    common.replay_known(ck)
    n = 2500 if quick else 80000 * common.TS
    rng = ck.rng.fork("err")
    plist = []
    for i in range(n):
        src, mods = feat_err.program(rng.fork(str(i)))
        plist.append({"name": "err/%d" % i, "steps": [("snip", src)], "mods": mods, "natives": True})
    r3 = ck.rng.fork("fintrace")
    for i in range(500 if quick else 20000 * common.TS):
        src, mods = feat_err.finally_trace_program(r3.fork(str(i)))
        plist.append({"name": "fintrace/%d" % i, "steps": [("snip", src)], "mods": mods})
    r2 = ck.rng.fork("cerr")
    for i in range(800 if quick else 30000 * common.TS):
        plist.append({"name": "cerr/%d" % i, "steps": [("snip", feat_err.compile_error_program(r2.fork(str(i))))], "mods": []})
    # the same reports from far down a source text: line numbers around and beyond 2^15, 2^16 and 2^17 (blank lines in front)
    rl = ck.rng.fork("farlines")
    for i in range(48 if quick else 1500 * common.TS):
        src, mods = feat_err.program(rl.fork(str(i)))
        pad = rl.choice([32766, 32767, 32768, 65533, 65534, 65535, 65536, 65537, 70000, 131071, 131072, 131073, 200000])
        plist.append({"name": "farlines/%d+%d" % (i, pad), "steps": [("snip", "\n" * pad + src)], "mods": mods, "natives": True})
        ck.count("far_line_programs")
    classes = {}

    def seen(p, m, res):
        v = m["view"][0]
        if v["res"] == "error":
            ck.note_nontrivial(p["steps"][0][1])
            ck.count("uncaught_errors_checked")
            ck.count("trace_lines_checked", len(v["msgs"]) - 1)
            classes[v["msgs"][0].split(":")[0]] = classes.get(v["msgs"][0].split(":")[0], 0) + 1
            if len(ck.samples) < 3 and len(v["msgs"]) > 3:
                ck.sample({"source": p["steps"][0][1][-700:], "modules": p["mods"], "expected_kind": v["kind"], "expected_messages": v["msgs"]})
        elif v["res"] == "compile_error":
            ck.note_nontrivial(p["steps"][0][1])
            ck.count("compile_errors_checked")
        else:
            ck.count("caught_or_clean_runs")

    # interplay: this check's programs inside stacks of other features' constructs, and every profile's programs inside
    # this feature's constructs (vfpy/gen/feat_ctx.py); the model decides what they must print
    from ..gen import feat_ctx as _ctx
    for _p in _ctx.interplay(ck.rng.fork("interplay"), None, None, *((300, 300) if quick else (3000 * common.TS, 3000 * common.TS))):
        for _c in _p["ctx"]:
            ck.count("nesting_context_" + _c)
        plist.append(_p)
    checked, discarded = modelcheck.check_programs(ck, plist, on_result=seen)
    ck.coverage["programs_checked"] = checked
    ck.coverage["programs_discarded_by_model"] = discarded
    ck.coverage["unhandled_heads_seen"] = dict(sorted(classes.items()))
    return ck.finish("error-report programs (failing statement x call chain of depth 0-5 over fn / method / static / "
                     "lambda / module function frames x optional fiber x caught or uncaught) and compile-error programs "
                     "(one bad token on a known line), reports of errors that travelled through finally blocks in recursive code and in interleaved fibers, compared with the model on kind, every message and every trace "
                     "line; non-trivial = distinct program ending in an uncaught or compile error")


def replay(data):
    return modelcheck.replay_generic(data, "C17")
