"""C03 - compilation is total.

Oracle (in the runner, `checked_compile`): every call of compiler::compile on the generated text
 * returns (no panic; a hang is caught by the batch watchdog and confirmed by isolated re-runs),
 * Err  => kind CompileError, >=1 message, every message located `[module "main", line n] Error...`
           with 1 <= n <= lines+1, and the error counter hook (H8) saw exactly that many errors,
 * Ok   => the error counter hook saw no recorded error, and the produced chunks pass the linear
           structural decode (chunkcheck).
Workloads: every prefix of every corpus script and of core.yl; token-level and character-level
mutants; random token strings; nesting bombs within bounds; erroneous text followed by well-formed
code. Thorough adds more of each and a libFuzzer run whose findings are replayed through this oracle.
"""
import os
import re

from .. import common
from ..common import Check, mk_case

TOKEN_RE = re.compile(r'''
    (?P<comment>//[^\n]*) |
    (?P<str>"(?:\\.|[^"\\])*"?) |
    (?P<num>\d+(?:\.\d+)?) |
    (?P<id>[A-Za-z_][A-Za-z_0-9]*) |
    (?P<op><<=|>>=|\.\.|<<|>>|&&|\|\||[-+*/%&|^!=<>]=|[-+*/%&|^!=<>(){}\[\],.:;#~]) |
    (?P<ws>\s+) |
    (?P<other>.)
''', re.X | re.S)

VOCAB = ["(", ")", "{", "}", "[", "]", ",", ".", "..", "-", "-=", "+", "+=", ":", ";", "/", "/=", "*", "*=",
         "!", "!=", "=", "==", ">", ">=", "<", "<=", "&", "&=", "|", "|=", "^", "^=", "%", "%=", ">>", ">>=",
         "<<", "<<=", "&&", "||", "~", "#", "x", "foo", "\"s\"", "\"a${", "}b\"", "\"${x}\"", "1", "2.5", "Self",
         "catch", "class", "else", "false", "finally", "for", "fn", "if", "import", "as", "in", "nil", "return",
         "self", "super", "break", "continue", "throw", "true", "try", "var", "while", "\"", "$", "\\",
         "#[constructor(new)]", "#[derive(A)]", "#[static]", "#[", "é", "€", "😀", "\"\\u", "\"\\x4", "'"]

CHAR_INSERTS = ["\"", "${", "\\", "{", "}", "(", ")", "é", "€", "😀", "́", "\0", "\r", "#", "|", "\"\\u00",
                "\\x", "\"\\U0001", "\"${\"${", "}\"", "//", "\n", ".", "..", "1.", "@", "`"]

BROKEN_PREFIXES = [
    "var = 1;\n", "var a = ;\n", "fn () {}\n", "fn f( {}\n", "class {}\n", "class A { fn }\n", "print(1;\n",
    "a +;\n", "1 = 2;\n", "\"unterminated\n", "var s = \"bad \\q escape\";\n", "if {}\n", "while {\n}\n",
    "for in x {}\n", "for x [1] {}\n", "try {}\n", "try { } catch { }\n", "return 1;\n", "break;\n", "continue;\n",
    "#[x]\nvar a;\n", "#[constructor]\nfn f() {}\n", "#[\n", "import;\n", "import \"main\";\n", "var a = [1, 2;\n",
    "var t = (1, 2;\n", "var m = {1 2};\n", "var m = {1: };\n", "self;\n", "super.x;\n", "Self;\n", "a.;\n",
    "a[1;\n", "|x y| x;\n", "{ var a = a; }\n", "{ var a; var a; }\n", "fn f(a, a) {}\n", "@;\n", "var a = 1 $ 2;\n",
    "\"${\";\n", "\"${1\";\n", "class A { #[static, constructor] fn f() {} }\n", "#[derive(A)] class A {}\n",
    "}\n", ")\n", "]\n", "else {}\n", "catch e {}\n", "finally {}\n", "throw;\n", "1..;\n", "..1;\n", "var a = 1.;\n",
]


def tokenize(src):
    return [m.group(0) for m in TOKEN_RE.finditer(src)]


def token_mutant(rng, toks):
    toks = list(toks)
    idx = [i for i, t in enumerate(toks) if not t.isspace()]
    if not idx:
        return "".join(toks) + rng.choice(VOCAB)
    for _ in range(rng.range(1, 3)):
        i = rng.choice(idx)
        op = rng.below(5)
        if op == 0:
            toks[i] = ""
        elif op == 1:
            toks[i] = toks[i] + " " + toks[i]
        elif op == 2:
            j = rng.choice(idx)
            toks[i], toks[j] = toks[j], toks[i]
        elif op == 3:
            toks[i] = rng.choice(VOCAB)
        else:
            toks[i] = toks[i] + " " + rng.choice(VOCAB)
    return "".join(toks)


def char_mutant(rng, src):
    b = src
    for _ in range(rng.range(1, 3)):
        pos = rng.below(len(b) + 1)
        op = rng.below(3)
        if op == 0 or not b:
            b = b[:pos] + rng.choice(CHAR_INSERTS) + b[pos:]
        elif op == 1:
            b = b[:pos] + b[pos + 1:]
        else:
            b = b[:pos] + rng.choice(CHAR_INSERTS) + b[pos + 1:]
    return b


def random_tokens(rng):
    n = rng.range(1, 80)
    out = []
    depth = 0
    for _ in range(n):
        t = rng.choice(VOCAB)
        if t == "\"a${":
            depth += 1
        out.append(t)
        if rng.chance(15):
            out.append("\n")
    if depth and rng.chance(50):
        out.extend(["}b\""] * min(depth, 9))
    return " ".join(out)


def nesting_bombs(depths):
    out = []
    for d in depths:
        out.append("(" * d + "1" + ")" * d + ";")
        out.append("{" * d + "}" * d)
        out.append("var a = " + "-" * d + "1;")
        out.append("var a = " + "!" * d + "true;")
        out.append("var a = " + "~" * min(d, 400) + "1;")
        out.append("var a = " + "[" * d + "]" * d + ";")
        out.append("var a = " + "|| " * d + "1;")
        out.append("var a = " + "|x| " * d + "x;")
        out.append("var a = " + "{1: " * d + "2" + "}" * d + ";")
        out.append("".join("if true { " for _ in range(d)) + "}" * d)
        out.append("".join("while false { " for _ in range(d)) + "}" * d)
        out.append("".join("for x in [] { " for _ in range(min(d, 120))) + "}" * min(d, 120))
        out.append("".join("try { " for _ in range(d)) + "} finally {}" * d)
        out.append("".join("fn f%d() { " % i for i in range(min(d, 200))) + "}" * min(d, 200))
        out.append("var a = 1" + " + (1" * d + ")" * d + ";")
        out.append("var a = f" + "(f" * d + ")" * d + ";")
        out.append("var a = x" + ".y" * d + ";")
        out.append("var a = x" + "[0]" * d + ";")
        out.append("(" * d)
        out.append("{" * d)
        out.append("var a = " + "[" * d)
        out.append("var a = " + "-" * d)
    # interpolation depth: 1..9 (8 is the limit; 9 must be a located error)
    for d in range(1, 10):
        s = "1"
        for _ in range(d):
            s = "\"a${" + s + "}b\""
        out.append("var s = " + s + ";")
        out.append("var s = " + "\"a${" * d)
    # class nesting through methods
    for d in (5, 40):
        s = ""
        for i in range(d):
            s += "class C%d { fn m(self) { " % i
        s += "} }" * d
        out.append(s)
    return out


def run(tier):
    ck = Check("C03", tier)
    quick = tier == "quick"
    common.build(["hook"])
    scripts, _ = common.scripts_corpus()
    core = open(os.path.join(common.REPO, "yarel", "src", "core.yl")).read()
    scripts = scripts + [("<core.yl>", core)]
    rng = ck.rng
    cases = []
    sources = {}

    def add_compile_group(tag, srcs, fresh=False):
        group = 150
        for g in range(0, len(srcs), group):
            cid = "%s-%d" % (tag, g // group)
            chunk = srcs[g:g + group]
            sources[cid] = chunk
            cases.append(mk_case(cid, [("compile", s) for s in chunk], {"gc": "never"}))

    # 1. every prefix of every script
    for name, src in scripts:
        cid = "prefix:" + name
        sources[cid] = [src]
        cases.append({"id": cid, "steps": [("prefixes", src)], "opts": {"gc": "never"}, "mods": [], "globals": []})
    # 2. mutants
    n_tok = 120000 if quick else 1500000
    n_chr = 80000 if quick else 1000000
    n_rand = 60000 if quick else 800000
    toks_cache = [(name, tokenize(src), src) for name, src in scripts]
    muts = []
    for _ in range(n_tok):
        _, toks, _src = rng.choice(toks_cache)
        muts.append(token_mutant(rng, toks))
    add_compile_group("tok", muts)
    muts = []
    for _ in range(n_chr):
        _, _toks, src = rng.choice(toks_cache)
        muts.append(char_mutant(rng, src))
    add_compile_group("chr", muts)
    add_compile_group("rnd", [random_tokens(rng) for _ in range(n_rand)])
    # 3. nesting bombs within bounds
    add_compile_group("nest", nesting_bombs([10, 100, 500] if quick else [10, 50, 100, 250, 500]))
    # 4. an error followed by well-formed code
    follow = []
    picks = scripts if not quick else rng.sample(scripts, 60)
    for bp in BROKEN_PREFIXES:
        for name, src in picks:
            follow.append(bp + src)
    add_compile_group("follow", follow)
    # 6. errors located at tokens of every shape (string / interpolation tokens whose byte and character counts differ,
    #    very long identifiers and numbers), and programs at and beyond each declaration limit
    from ..gen import feat_lex, limits
    add_compile_group("lex", feat_lex.sources(rng.fork("lex"), quick))
    limit_fam = limits.decl_limit_family() + limits.count_family() + limits.compound_after_constants()
    add_compile_group("limits", [src for _, src in limit_fam])

    ck.log("running %d cases (%d prefix scripts)" % (len(cases), len(scripts)))
    results = run_cases(cases)
    distinct_msgs = set()
    for case, res in zip(cases, results):
        cid = case["id"]
        if "abort" in res:
            handle_abort(ck, case, res, sources)
            continue
        if res.get("harness_panic"):
            ck.inconclusive.append("harness panic in %s: %s" % (cid, res.get("panic_msg")))
            continue
        for i, st in enumerate(res["steps"]):
            if st["k"] == "prefixes":
                n = st["ok"] + st["err"] + st["panics"]
                ck.evaluations += n
                ck.count("prefixes_compiled", n)
                ck.count("prefix_ok", st["ok"])
                ck.count("prefix_err", st["err"])
                ck.coverage["slowest_prefix_compile_us"] = max(ck.coverage.get("slowest_prefix_compile_us", 0),
                                                              st.get("slowest_us", 0))
                if st["ok"] and st["err"]:
                    ck.note_nontrivial(cid)
                for a in st["anomalies"]:
                    m = re.match(r"prefix (\d+): (.*)", a, re.S)
                    cut = int(m.group(1))
                    text = sources[cid][0].encode()[:cut].decode(errors="ignore")
                    ck.violation(signature_of(m.group(2)), {"kind": "compile", "source": text, "problem": m.group(2),
                                                            "origin": cid})
            elif st["k"] == "compile":
                ck.evaluations += 1
                src = sources[cid][i]
                ck.count("compiled_" + st["res"])
                if st["res"] == "ok" and st.get("instructions", 0) > 1 or st["res"] == "err":
                    ck.note_nontrivial(src)
                if len(ck.samples) < 6 and i == 3:
                    ck.sample({"source": src[:300], "result": st["res"]})
                for problem in st["problems"]:
                    ck.violation(signature_of(problem), {"kind": "compile", "source": src, "problem": problem,
                                                         "origin": cid})
    # 7. what is beyond a stated limit must be *rejected*: a program with one element, part, local or capture too many that
    #    is compiled into a function is not a runnable function. Accept / reject of every program of the limit families
    #    (254..257 of everything, through every declaring construct and every arrangement of literal text around
    #    interpolation parts) is compared with the reference model's own reading of the limits.
    from . import modelcheck
    lp = [{"name": "limit:" + name, "steps": [("snip", src)], "mods": [("limmod", "var v = 5;\n")], "budget": 3000000} for name, src in limit_fam]
    models = modelcheck.run_models(lp, chunk=4)
    verdict = {}
    for case, res in zip(cases, results):
        if case["id"].startswith("limits-") and "abort" not in res:
            for i, st in enumerate(res.get("steps", [])):
                verdict[sources[case["id"]][i]] = st.get("res")
    for (name, src), m in zip(limit_fam, models):
        if "crash" in m or src not in verdict:
            continue
        mres = m["view"][0].get("res")
        if mres in ("unsupported", "budget"):
            ck.count("limit_programs_not_decided_by_model")
            continue
        ck.count("limit_programs_compared")
        want_err = mres == "compile_error"
        got_err = verdict[src] == "err"
        # (the other direction - the implementation rejects with a limit message what the model would run - is an encoding
        # limit the model does not know, e.g. hidden locals of a loop; C04 checks that such a rejection carries a limit message)
        if want_err and not got_err:
            ck.violation("LimitAcceptance(%s)" % re.sub(r"[/\d]+$", "", name), {
                "kind": "compile", "source": src, "origin": "limit:" + name,
                "problem": "the program is %s a stated limit (%s) but compile %s it" % (
                    "beyond" if want_err else "within", m["view"][0].get("msg") if want_err else "model accepts", "accepted" if want_err else "rejected")})
    if tier == "thorough":
        fuzz_stage(ck)
    return ck.finish("inputs: every char-boundary prefix of the %d corpus scripts and core.yl, token/char mutants of "
                     "them, random token strings, nesting bombs (depth <= 500, interpolation depth <= 9), broken "
                     "statement + well-formed script; non-trivial = distinct text that produced a located compile "
                     "error, or a function with more than the implicit return (for prefix cases: a script whose "
                     "prefixes produced both outcomes)" % (len(scripts) - 1))


def signature_of(problem):
    if problem.startswith("PANIC "):
        return "CompilePanic(%s)" % problem[6:]
    # strip the concrete message text, keep the kind of problem
    head = problem.split(":")[0]
    return "CompileContract(%s)" % re.sub(r"\d+", "N", head)[:80]


def run_cases(cases, timeout=900):
    # a compile takes microseconds and a case is at most a few hundred of them: a short watchdog, a low cap on dying cases
    # (a tree on which a dozen inputs hang the compiler is decided) and no second opinion here - handle_abort() re-runs the
    # dying input alone anyway
    return common.run_batch("hook", cases, timeout=timeout, case_timeout=12, abort_cap=12, retry_timeouts=False)


def handle_abort(ck, case, res, sources):
    """a runner process died or hung inside this case: find the input by re-running its compiles alone"""
    cid = case["id"]
    if res["abort"].get("why") == "not-run":
        return
    isolated = getattr(ck, "_aborts_isolated", 0)
    if isolated >= 4:
        # enough witnesses: do not spend a watchdog period on every further dying input of a tree that is broken anyway
        ck.count("aborting_cases_not_isolated")
        return
    ck._aborts_isolated = isolated + 1
    singles = []
    if case["steps"][0][0] == "prefixes":
        src = case["steps"][0][1]
        b = src.encode()
        cuts = [i for i in range(len(b) + 1) if i == len(b) or (b[i] & 0xC0) != 0x80]
        for c in cuts:
            singles.append(b[:c].decode())
    else:
        singles = [s[1] for s in case["steps"]]
    sub = [mk_case("%s#%d" % (cid, i), [("compile", s)], {"gc": "never"}) for i, s in enumerate(singles)]
    out = common.run_batch("hook", sub, timeout=120, case_timeout=8, abort_cap=6, retry_timeouts=False)
    found = False
    for c, r in zip(sub, out):
        if "abort" in r and r["abort"].get("why") != "not-run":
            again = [common.run_batch("hook", [c], shards=1, timeout=300, case_timeout=30, retry_timeouts=False)[0] for _ in range(2)]
            if all("abort" in a for a in again):
                found = True
                why = r["abort"]["why"]
                ck.violation("CompileAbort(%s)" % why, {"kind": "compile", "source": c["steps"][0][1],
                                                         "problem": "runner %s: %s" % (why, r["abort"]["status"])})
                break   # one confirmed input per dying case is the witness; the others are usually the same defect
    if not found:
        ck.inconclusive.append("runner died in %s (%s) but no single input reproduces it" % (cid, res["abort"]))


def fuzz_stage(ck):
    """libFuzzer over compiler::compile (ASan), crashes replayed through the ordinary oracle."""
    from . import fuzz
    fuzz.run_compile_fuzz(ck)


def replay(data):
    common.build(["hook"])
    case = mk_case("replay", [("compile", data["source"])], {"gc": "never"})
    res = common.run_batch("hook", [case], shards=1, timeout=300)[0]
    print(res)
    bad = "abort" in res or any(st.get("problems") or st.get("res") == "panic" for st in res.get("steps", []))
    if bad:
        print("VIOLATION property=C03 replay=<given>")
        return 1
    return 0
