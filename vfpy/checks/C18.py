"""C18 - iteration is uniform over built-in and user-defined iterables.

Oracle A: for loops over vectors, tuples, ascending / descending / empty ranges, strings over a
1-4-byte alphabet and user iterator classes (including ones whose iter() resets a cursor or hands
out a separate iterator, and ones that stop early), chains of map/filter ending in collect / reduce /
for, nested and interleaved loops over one shared iterator, break / continue / return followed by
reuse of the iterator, mutation of a vector during iteration - against the model's iterator protocol."""
from .. import common
from ..common import Check
from ..gen import feat_data, progs
from . import modelcheck


def profiles(avoid):
    P = progs.Profile
    return [("iter-mixed", P(w=dict(var=5, assign=3, print=5, if_=3, while_=2, for_=12, block=1, fn=2, call=2, lam=1,
                                    opassign=1, brk=4, cont=4, ret=2, setitem=1, itchain=10), probe=5, expr_depth=2,
                             max_depth=4, stmts=(4, 12), avoid=avoid))]


def run(tier):
    ck = Check("C18", tier)
    quick = tier == "quick"
    common.build(["hook"])
    common.replay_witnesses(ck, ["hook"])
    common.replay_known(ck)
    n = 2500 if quick else 80000 * common.TS
    rng = ck.rng.fork("iter")
    plist = [{"name": "iter/%d" % i, "steps": [("snip", feat_data.iter_program(rng.fork(str(i))))], "mods": []} for i in range(n)]
    r3 = ck.rng.fork("itermut")
    plist += [{"name": "itermut/%d" % i, "steps": [("snip", feat_data.iter_mutation_program(r3.fork(str(i))))], "mods": []}
              for i in range(300 if quick else 10000 * common.TS)]
    r4 = ck.rng.fork("progress")
    plist += [{"name": "progress/%d" % i, "steps": [("snip", feat_data.iter_progress_program(r4.fork(str(i))))], "mods": []}
              for i in range(300 if quick else 10000 * common.TS)]
    prof = profiles(ck.findings.avoid_tags())[0][1]
    r2 = ck.rng.fork("mixed")
    for i in range(400 if quick else 10000 * common.TS):
        src, mods = progs.generate(r2.fork(str(i)), prof)
        plist.append({"name": "mixed/%d" % i, "steps": [("snip", src)], "mods": mods})

    def seen(p, m, res):
        v = m["view"][0]
        src = p["steps"][0][1]
        if len(v["out"]) >= 3:
            ck.note_nontrivial(src)
        ck.count("for_loops", src.count("for "))
        ck.count("chain_stages", src.count(".map(") + src.count(".filter("))
        if len(ck.samples) < 2 and ".map(" in src:
            ck.sample({"program": p["name"], "source": src[-700:], "expected_output": v["out"][:14]})

    # interplay: this check's programs inside stacks of other features' constructs, and every profile's programs inside
    # this feature's constructs (vfpy/gen/feat_ctx.py); the model decides what they must print
    from ..gen import feat_ctx as _ctx
    for _p in _ctx.interplay(ck.rng.fork("interplay"), profiles(ck.findings.avoid_tags()), "C18", *((300, 300) if quick else (3000 * common.TS, 3000 * common.TS))):
        for _c in _p["ctx"]:
            ck.count("nesting_context_" + _c)
        plist.append(_p)
    # size ladders: this property's sized things at every size of a ladder straddling powers of two (vfpy/gen/feat_scale.py)
    from ..gen import feat_scale as _scale
    for _p in _scale.programs("C18", ck.rng.fork("scale"), quick):
        ck.count("scale_programs")
        ck.count("scale_template_" + _p["scale"][0])
        plist.append(_p)
    checked, discarded = modelcheck.check_programs(ck, plist, on_result=seen)
    ck.coverage["programs_checked"] = checked
    ck.coverage["programs_discarded_by_model"] = discarded
    return ck.finish("iteration programs (for over every iterable kind incl. user iterator classes, map/filter chains "
                     "of depth <= 4 ending in collect/reduce/for, shared and nested iterators, break/continue/return, "
                     "mutation during iteration, iterator-vs-mutation histories, ended iterators asked again, chains whose stages log their calls, UTF-8 boundary strings) against the model; non-trivial = distinct program printing >= 3 lines")


def replay(data):
    return modelcheck.replay_generic(data, "C18")
