"""M3, thorough tier: valgrind memcheck on the unhooked stress-GC release build and Miri (aliasing
checks off, see DESIGN.md §2) on the hooked runner in release configuration."""
import os
import re

from .. import common
from ..common import mk_case, snip


def valgrind_stage(ck, progs):
    common.build(["vg"])
    cases = [mk_case("vg%d" % i, [snip(src)], {}, mods) for i, (name, src, mods) in enumerate(progs)]
    wrapper = ["valgrind", "-q", "--error-exitcode=99", "--exit-on-first-error=yes", "--num-callers=30"]
    ck.log("valgrind: %d executions" % len(cases))
    results = common.run_batch("vg", cases, timeout=3600, wrapper=wrapper, case_timeout=600)
    for (name, src, mods), res in zip(progs, results):
        ck.evaluations += 1
        ck.count("valgrind_executions")
        if "abort" in res:
            text = " ".join(str(x) for x in res["abort"].get("status", []))
            if res["abort"]["why"] == "timeout":
                ck.inconclusive.append("valgrind run of %s hit the watchdog" % name)
                continue
            m = re.search(r"(Invalid (?:read|write) of size \d+|Use of uninitialised value|Conditional jump or move depends on uninitialised|Invalid free|Mismatched free)", text)
            if m is None and "99" not in str(res["abort"].get("status", [None, None])[1]):
                continue  # died for a reason unrelated to memcheck (decided by C02)
            frames = re.findall(r"(?:at|by) 0x[0-9A-F]+: (\S+) \((\w+\.rs):(\d+)\)", text)
            inrepo = [f for f in frames if f[1] in ("memory.rs", "object.rs", "vm.rs", "core.rs", "stack.rs", "value.rs", "compiler.rs", "chunk.rs")]
            sig = "Valgrind(%s,%s)" % (m.group(1).split(" of ")[0] if m else "error", inrepo[0][0] + "@" + inrepo[0][1] if inrepo else "?")
            ck.violation(sig, {"program": name, "source": src, "modules": mods, "what": text[:3000]})


def miri_stage(ck, progs):
    """a sample of small programs under the UB interpreter; GC forced at every allocation after start-up"""
    hdir = os.path.join(common.BUILD_ROOT, "harness")
    common.build(["hook"])  # syncs the harness sources
    env = dict(os.environ)
    env["MIRIFLAGS"] = "-Zmiri-disable-stacked-borrows -Zmiri-disable-isolation"
    env["CARGO_TARGET_DIR"] = os.path.join(common.BUILD_ROOT, "target-miri")
    env["CARGO_NET_OFFLINE"] = "true"
    cmd = ["cargo", "+nightly", "miri", "run", "--release", "--offline", "--features", "hooks", "--manifest-path",
           os.path.join(hdir, "Cargo.toml"), "--"]
    cases = [mk_case("miri%d" % i, [snip(src)], {"gc": "nth:7", "quarantine": 0}, mods) for i, (name, src, mods) in enumerate(progs)]
    ck.log("miri: %d executions" % len(cases))
    results = common.run_batch("hook", cases, timeout=7200, env=env, cmd=cmd, case_timeout=1800, shards=common.NCPU)
    for (name, src, mods), res in zip(progs, results):
        ck.evaluations += 1
        ck.count("miri_executions")
        if "abort" in res:
            text = " ".join(str(x) for x in res["abort"].get("status", []))
            if res["abort"]["why"] == "timeout":
                ck.inconclusive.append("miri run of %s hit the watchdog" % name)
                continue
            m = re.search(r"error: Undefined Behavior: ([^\n]+)", text)
            if m is None:
                if "unsupported operation" in text:
                    ck.count("miri_unsupported")
                    continue
                ck.inconclusive.append("miri process died without a UB report on %s: %s" % (name, text[-300:]))
                continue
            where = re.search(r"--> (\S+):(\d+):\d+", text[m.start():])
            sig = "MiriUB(%s @ %s)" % (m.group(1)[:80], where.group(1).split("/")[-1] if where else "?")
            ck.violation(sig, {"program": name, "source": src, "modules": mods, "what": text[:4000]})
