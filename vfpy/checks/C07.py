"""C07 - classes: construction, fields, dispatch, inheritance, super, static.

Oracle A (reference model with copy-down method tables, metaclass statics, constructors, super bound
to the declared superclass) and relation B inside the programs: every `x.m(a)` is also emitted as
`var f = x.m; f(a)` and through a field holding the bound method, and the results are compared."""
from .. import common
from ..common import Check
from ..gen import progs
from . import modelcheck


def profiles(avoid):
    P = progs.Profile
    return [
        ("classes", P(w=dict(var=5, assign=3, print=5, if_=2, while_=1, for_=1, block=2, fn=3, call=3, lam=2, opassign=1,
                             brk=0, cont=0, ret=2, setitem=0, cls=14, field=14, clsmisc=4), probe=5, expr_depth=2,
                      max_depth=3, stmts=(4, 12), avoid=avoid)),
    ]


def run(tier):
    ck = Check("C07", tier)
    quick = tier == "quick"
    common.build(["hook"])
    common.replay_witnesses(ck, ["hook"])
    common.replay_known(ck)
    avoid = ck.findings.avoid_tags()
    n = 2500 if quick else 60000 * common.TS
    plist = []
    for name, prof in profiles(avoid):
        rng = ck.rng.fork(name)
        for i in range(n):
            src, mods = progs.generate(rng.fork(str(i)), prof)
            plist.append({"name": "%s/%d" % (name, i), "steps": [("snip", src)], "mods": mods})

    from ..gen import feat_cls
    rh = ck.rng.fork("hostclasses")
    for i in range(300 if quick else 8000 * common.TS):
        plist.append({"name": "hostcls/%d" % i, "steps": [("snip", feat_cls.host_class_program(rh.fork(str(i))))], "mods": [], "hostclasses": True})

    ro = ck.rng.fork("objover")
    for i in range(200 if quick else 5000 * common.TS):
        plist.append({"name": "objover/%d" % i, "steps": [("snip", feat_cls.object_override_program(ro.fork(str(i))))], "mods": []})

    rc = ck.rng.fork("ctorpaths")
    for i in range(200 if quick else 5000 * common.TS):
        plist.append({"name": "ctorpaths/%d" % i, "steps": [("snip", feat_cls.ctor_paths_program(rc.fork(str(i))))], "mods": []})
    rn = ck.rng.fork("nestedrecv")
    for i in range(150 if quick else 4000 * common.TS):
        plist.append({"name": "nestedrecv/%d" % i, "steps": [("snip", feat_cls.nested_receiver_program(rn.fork(str(i))))], "mods": []})

    def seen(p, m, res):
        v = m["view"][0]
        src = p["steps"][0][1]
        if "class " in src and len(v["out"]) >= 2:
            ck.note_nontrivial(src)
        ck.count("model_outcome_" + v["res"])
        ck.count("super_calls", src.count("super."))
        ck.count("bound_method_comparisons", src.count(") == bm"))
        if len(ck.samples) < 3 and "derive" in src and len(v["out"]) > 3:
            ck.sample({"program": p["name"], "source": src[:900], "expected_output": v["out"][:8]})

    # interplay: this check's programs inside stacks of other features' constructs, and every profile's programs inside
    # this feature's constructs (vfpy/gen/feat_ctx.py); the model decides what they must print
    from ..gen import feat_ctx as _ctx
    for _p in _ctx.interplay(ck.rng.fork("interplay"), profiles(avoid), "C07", *((300, 300) if quick else (3000 * common.TS, 3000 * common.TS))):
        for _c in _p["ctx"]:
            ck.count("nesting_context_" + _c)
        plist.append(_p)
    # size ladders: this property's sized things at every size of a ladder straddling powers of two (vfpy/gen/feat_scale.py)
    from ..gen import feat_scale as _scale
    for _p in _scale.programs("C07", ck.rng.fork("scale"), quick):
        ck.count("scale_programs")
        ck.count("scale_template_" + _p["scale"][0])
        plist.append(_p)
    checked, discarded = modelcheck.check_programs(ck, plist, on_result=seen)
    ck.coverage["programs_checked"] = checked
    ck.coverage["programs_discarded_by_model"] = discarded
    return ck.finish("programs from the classes profile (hierarchies up to depth ~4, overriding, shadowing fields, "
                     "methods in fields and variables, statics and Self, default/explicit constructors, super, rebinding, "
                     "host-declared classes with native methods and script subclasses of them, local classes, classes declared inside static / instance / constructor methods and lambdas of other classes, wrong arities, unknown members, non-class superclasses) against the reference model; "
                     "non-trivial = distinct program declaring a class that printed at least two lines")


def replay(data):
    return modelcheck.replay_generic(data, "C07")
