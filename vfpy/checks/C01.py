"""C01 - GC safety: nothing a program can still reach is ever reclaimed.

Monitors:
  M1  complete-edge closure audit at sweeps (hook H3): an object in the closure of the rooted boxes
      under the complete edge lists that the stock tracer left white  -> MissingEdge / DanglingEdge
  M2  quarantine + poison (hook H2): a managed pointer or an open captured variable dereferenced
      after its target was reclaimed                                   -> UseAfterReclaim / UpvalueIntoDeadStack
  M3  AddressSanitizer on an unhooked release build with debug_stress_gc (collect at every
      allocation); thorough adds valgrind memcheck and Miri on a sample
  M4  the program prints the same under collect-always, never-collect and seeded random schedules
Workloads: the holder x target edge matrix (gen/gcshapes), the repository's scripts, and the
generated programs of the other profiles (gen/*, reused verbatim as GC workloads).
"""
import json
import os
import re

from .. import common
from ..common import Check, mk_case, snip
from ..gen import gcshapes

ASAN_ENV = {"ASAN_OPTIONS": "detect_leaks=0:halt_on_error=1:abort_on_error=0:symbolize=1:allocator_may_return_null=1"}


def workload(ck, quick):
    """list of (name, source, modules)"""
    progs = list(gcshapes.programs())
    ck.coverage["matrix_programs"] = len(progs)
    deep = gcshapes.deep_programs()
    ck.coverage["deep_chain_programs"] = len(deep)
    progs += deep
    scripts, mods = common.scripts_corpus()
    for name, src in scripts:
        progs.append(("script:" + name, src, mods))
    try:
        from ..gen import profiles
        n = 400 if quick else 8000 * common.TS
        for name, src, m in profiles.gc_workload(ck.rng.fork("profiles"), n):
            progs.append((name, src, m))
    except ImportError:
        pass
    return progs


def run(tier):
    ck = Check("C01", tier)
    quick = tier == "quick"
    cfgs = ["hook", "asan"]
    common.build(cfgs)
    common.replay_witnesses(ck, ["hook"])
    progs = workload(ck, quick)
    nseeded = 2 if quick else 8
    cases = []
    meta = {}
    for i, (name, src, mods) in enumerate(progs):
        matrix = not name.startswith("script:") and "/" in name
        audit = 1 if (matrix or not quick) else 2
        cid = "p%d" % i
        meta[cid] = (name, src, mods)
        cases.append(mk_case(cid + ":always", [snip(src)], {"gc": "always", "quarantine": 1, "audit": audit}, mods))
        cases.append(mk_case(cid + ":never", [snip(src)], {"gc": "never"}, mods))
        for s in range(nseeded):
            sd = ck.rng.next() & 0xFFFFFFFF
            num = ck.rng.choice([16, 64, 256, 600])
            cases.append(mk_case("%s:seeded%d" % (cid, s), [snip(src)],
                                 {"gc": "seeded:%d:%d" % (sd, num), "quarantine": 1, "audit": 1}, mods))
    ck.log("hook build: %d programs, %d executions" % (len(progs), len(cases)))
    results = common.run_batch("hook", cases, timeout=1200)
    by_prog = {}
    for case, res in zip(cases, results):
        cid, mode = case["id"].split(":")
        by_prog.setdefault(cid, {})[mode] = (case, res)
    sole = {}
    labels = {}
    for cid, modes in by_prog.items():
        name, src, mods = meta[cid]
        base = modes["never"][1]
        base_out = common.outcome_of(base)
        collections = 0
        for mode, (case, res) in modes.items():
            ck.evaluations += 1
            if "abort" in res:
                # a crash of the hooked build is decided by C02; here only a schedule-dependent one counts
                if "abort" not in base:
                    ck.violation("ScheduleDependentAbort(%s)" % mode.rstrip("0123456789"),
                                 replay_of(name, src, mods, case, "runner died under %s but not under never-collect: %s"
                                           % (mode, res["abort"])))
                continue
            c = res.get("counters", {})
            collections += c.get("collections", 0)
            ck.count("collections", c.get("collections", 0))
            ck.count("derefs_poison_checked", c.get("derefs", 0))
            ck.count("upvalue_accesses_checked", c.get("upvalue_accesses", 0))
            ck.count("sweeps_audited", c.get("audits", 0))
            ck.count("edges_audited", c.get("audited_edges", 0))
            ck.count("objects_quarantined", c.get("quarantined", 0))
            for k, v in res.get("sole_edges", {}).items():
                sole[k] = sole.get(k, 0) + v
            for k, v in res.get("edges", {}).items():
                labels[k] = labels.get(k, 0) + v
            for ev in res.get("events", []):
                ck.violation(ev["sig"], replay_of(name, src, mods, case, "%s %s (x%d)" % (
                    ev["kind"], ev["detail"], res.get("event_counts", {}).get(ev["sig"], 1))))
            out = common.outcome_of(res)
            if common.panics_of(res) and common.panics_of(base):
                continue  # panics with and without any collection: not a GC matter (decided by C02)
            if out != base_out:
                ck.violation("ScheduleDependentOutput", replay_of(
                    name, src, mods, case, "output under %s differs from never-collect" % mode,
                    {"never": base_out[1][:2000], mode: out[1][:2000]}))
        if collections > 0:
            ck.note_nontrivial(src)
        if len(ck.samples) < 4 and collections > 0 and not name.startswith("script:"):
            ck.sample({"program": name, "source": src[-400:], "collections": collections})
    ck.coverage["sole_edge_kinds_exercised"] = sorted(sole)
    ck.coverage["edge_kinds_traversed"] = sorted(labels)
    ck.coverage["schedules_per_program"] = 2 + nseeded
    required = ["ObjVec.elements", "ObjTuple.elements", "ObjHashMap.elements.value", "ObjInstance.fields.value",
                "ObjClosure.upvalues", "ObjUpvalue.closed", "ObjBoundMethod.receiver", "ObjVecIter.iterable",
                "ObjFiber.stack", "ObjClass.methods.value", "ObjFiber.frames.closure",
                "ObjUpvalue.open", "ObjFiber.return_value", "ObjInstance.class", "ObjClosure.function",
                "ObjTupleIter.iterable", "ObjModule.attributes.value", "ObjHashMap.elements.key", "ObjClass.superclass"]
    missing = [r for r in required if r not in sole]
    ck.coverage["required_sole_edges_missing"] = missing
    if missing:
        ck.inconclusive.append("edge kinds never the sole path to a survivor: %s" % ",".join(missing))

    # ---- M5: what the embedding program holds or has just created must survive too: compiled functions kept by the
    # host and executed again after reset(), natives defined into modules that do not exist yet (audited + poisoned,
    # collect-always; the reference model supplies the expected output)
    from ..gen import feat_repl
    from . import modelcheck
    rh = ck.rng.fork("host")
    hist = []
    for i in range(250 if quick else 8000 * common.TS):
        steps, hmods = feat_repl.host_history(rh.fork(str(i)))
        hist.append({"name": "host/%d" % i, "steps": steps, "mods": hmods})
    # ... and what later runs can still reach after a run was abandoned by an uncaught error: closures over variables of
    # every frame and fiber the failure discarded (ordinary snippet histories, collect-always, audited + poisoned)
    for i in range(350 if quick else 10000 * common.TS):
        steps, hmods = feat_repl.history(rh.fork("h%d" % i))
        hist.append({"name": "hist/%d" % i, "steps": steps, "mods": hmods})
    checked, _ = modelcheck.check_programs(ck, hist, opts={"gc": "always", "quarantine": 1, "audit": 1}, sig_prefix="HostHistory")
    ck.coverage["host_api_histories"] = checked

    # ---- M3: AddressSanitizer, unhooked release build collecting at every allocation
    asan_cases = [mk_case(cid + ":asan", [snip(meta[cid][1])], {}, meta[cid][2]) for cid in by_prog]
    ck.log("asan build: %d executions" % len(asan_cases))
    env = dict(os.environ)
    env.update(ASAN_ENV)
    asan_results = common.run_batch("asan", asan_cases, timeout=1200, env=env)
    for case, res in zip(asan_cases, asan_results):
        cid = case["id"].split(":")[0]
        name, src, mods = meta[cid]
        ck.evaluations += 1
        ck.count("asan_executions")
        if "abort" in res:
            report = asan_signature(res["abort"])
            base = by_prog[cid]["never"][1]
            if report is None and "abort" in base:
                continue  # dies the same way without any collection: not a GC matter (C02)
            ck.violation(report or "AsanBuildAbort", replay_of(name, src, mods, case, str(res["abort"])[:3000]))
            continue
        base_out = common.outcome_of(by_prog[cid]["never"][1])
        if common.panics_of(res) and common.panics_of(by_prog[cid]["never"][1]):
            continue
        if common.outcome_of(res) != base_out:
            ck.violation("ScheduleDependentOutput", replay_of(
                name, src, mods, case, "output of the stress-GC release build differs from never-collect",
                {"never": base_out[1][:2000], "asan": common.outcome_of(res)[1][:2000]}))
    if not quick:
        from . import memtools
        memtools.valgrind_stage(ck, [(meta[c][0], meta[c][1], meta[c][2]) for c in list(by_prog)[:400]])
        memtools.miri_stage(ck, [(meta[c][0], meta[c][1], meta[c][2]) for c in list(by_prog)[:120]])
    return ck.finish(
        "programs: holder x target edge matrix (%d), the repository's scripts, generated profile programs; each run "
        "under collect-always (audited + poisoned), never-collect and %d seeded schedules on the hooked build and on an "
        "ASan build with debug_stress_gc; non-trivial = distinct program during which at least one collection ran"
        % (ck.coverage.get("matrix_programs", 0), nseeded))


def asan_signature(abort):
    text = " ".join(str(x) for x in abort.get("status", []))
    m = re.search(r"ERROR: AddressSanitizer: ([a-z\-]+)", text)
    if not m:
        return None
    kind = m.group(1)
    frames = re.findall(r"#\d+ 0x[0-9a-f]+ in (\S+) (/repo|\S*yarel)\S*/src/(\w+\.rs):(\d+)", text)
    first = frames[0] if frames else None
    if first:
        return "Asan(%s,%s@%s)" % (kind, re.sub(r"::h[0-9a-f]{16}$", "", first[0]), first[2])
    return "Asan(%s)" % kind


def replay_of(name, src, mods, case, what, extra=None):
    d = {"program": name, "source": src, "modules": mods, "opts": case["opts"], "what": what}
    if extra:
        d["outputs"] = extra
    return d


def replay(data):
    common.build(["hook"])
    opts = data.get("opts") or {"gc": "always", "quarantine": 1, "audit": 1}
    cases = [mk_case("replay:given", [snip(data["source"])], opts, data.get("modules")),
             mk_case("replay:never", [snip(data["source"])], {"gc": "never"}, data.get("modules"))]
    res = common.run_batch("hook", cases, shards=1, timeout=300)
    for r in res:
        print(json.dumps(r)[:3000])
    bad = bool(res[0].get("events")) or common.outcome_of(res[0]) != common.outcome_of(res[1])
    if bad:
        print("VIOLATION property=C01 replay=<given>")
        return 1
    return 0
