"""C10 - optimised and checked builds behave identically.

Oracle B across build configurations: the same program must print the same lines and end with the
same outcome on the dev build (collect at every allocation, checked stack / fiber / opcodes / class
lookup), the plain release build (threshold-paced GC, unchecked stack, raw active-fiber pointer) and
release builds with subsets of the safe_* / debug_stress_gc feature switches (quick: none, all four
safe_*, stress only; thorough: all 32 subsets). On the hooked release build the raw active-fiber
pointer is compared with the rooted fiber after every snippet (H6 probe).
"""
import json
import os

from .. import common
from ..common import Check, mk_case, snip
from ..gen import gcshapes, churn, feat_index, hostile
from . import C16


def corpus(ck, quick):
    progs = []
    scripts, mods = common.scripts_corpus()
    for name, src in scripts:
        progs.append(("script:" + name, src, mods, []))
    for name, src, mods2 in gcshapes.programs():
        progs.append((name, src, mods2, []))
    names = sorted(churn.BODIES)
    rng = ck.rng.fork("churn")
    for i in range(40 if quick else 400):
        body = rng.sample(names, rng.range(1, 5))
        progs.append(("churn:%d" % i, churn.program(body, rng.choice([1, 4, 32])), [],
                      [("N", C16.f64_bits(rng.choice([50, 400, 3000])))]))
    # edge-value workloads: extreme / non-integral / ill-typed indexes and arguments reach the arithmetic whose
    # overflow behaviour differs between profiles
    for name, src in feat_index.programs(ck.rng.fork("index")):
        progs.append((name, src, [], []))
    hs, _, _ = hostile.sweep_programs(ck.rng.fork("sweep"), True)
    ho = hostile.operator_programs(ck.rng.fork("ops"), True)
    for name, src, m in (hs + ho)[:None if not quick else 60]:
        progs.append((name, src, m, []))
    for name, src, m in hostile.extreme_arith_programs(ck.rng.fork("extreme"), quick) + hostile.statement_call_programs(ck.rng.fork("stmtcall"), quick):
        progs.append((name, src, m, []))
    # the byte-exact string / index battery of C13 (every string function over boundary arguments, conversions from
    # bytes and code points including surrogates and out-of-range values)
    from . import C13
    exprs = C13.checks(True, ck.rng.fork("c13"))
    for i in range(0, len(exprs), 400):
        progs.append(("strings/%d" % (i // 400), "\n".join(C13.wrap(e) for e in exprs[i:i + 400]) + "\n", [], []))
    try:
        from ..gen import profiles
        for name, src, m in profiles.gc_workload(ck.rng.fork("profiles"), 300 if quick else 6000):
            progs.append((name, src, m, []))
    except ImportError:
        pass
    # several runs on one interpreter (what a failed run leaves behind is used by the next; paced collection in the
    # optimised builds, collection at every allocation in the checked one): `src` is then a list of steps
    from ..gen import feat_repl
    rh = ck.rng.fork("histories")
    for i in range(240 if quick else 6000):
        steps, hm = feat_repl.history(rh.fork(str(i)))
        # in one history of eight, allocation between the runs (about 80 KiB, more than the collector's first budget), so that
        # the paced collector of the optimised builds runs between a failed run and the use of what it left behind
        churn_step = ("snip", "var churn_keep = []; for ci in 0..400 { churn_keep = [ci, [churn_keep.len()], \"c${ci}\"]; }\n")
        withchurn = []
        for st in steps:
            withchurn.append(st)
            if st[0] == "snip" and i % 8 == 0:
                withchurn.append(churn_step)
        progs.append(("history/%d" % i, [tuple(x) for x in withchurn], hm, []))
    return progs


def run(tier):
    ck = Check("C10", tier)
    quick = tier == "quick"
    if quick:
        cfgs = ["dev", "rel", "rel-15", "rel-16"]
    else:
        cfgs = ["dev"] + [common.rel_subset_name(m) for m in range(32)]
    common.build(cfgs + ["hookfast"])
    progs = corpus(ck, quick)
    cases = [mk_case("p%d" % i, src if isinstance(src, list) else [snip(src)], {}, mods, gl) for i, (name, src, mods, gl) in enumerate(progs)]
    outs = {}
    tmo = common.batch_timeout(tier, len(cases) / 8)
    for cfg in cfgs:
        ck.log("%s: %d programs" % (cfg, len(cases)))
        outs[cfg] = common.run_batch(cfg, cases, timeout=tmo)
        hung = 0
        for i, res in enumerate(outs[cfg]):
            if "abort" in res and res["abort"]["why"] == "timeout":
                hung += 1
                if hung > 3:
                    continue   # a tree on which many programs hang is decided by the first few
                if not common.confirmed_hang(cfg, cases[i]):
                    ck.inconclusive.append("watchdog fired for %s on %s but the hang did not reproduce" % (progs[i][0], cfg))
    ck.coverage["configurations"] = cfgs
    ref = cfgs[0]
    # open known findings of this property: pinned programs on which the configurations are known to differ (each is the
    # C10 face of a defect recorded for another property and kept out of the generated corpus by that entry's avoid tag)
    for k in ck.findings.for_property("C10"):
        if not k.get("witness", "").startswith("witness/known/"):
            continue
        w = json.load(open(os.path.join(common.VERIF, k["witness"])))
        kc = mk_case("known", [tuple(x) for x in w["steps"]], {}, [tuple(m) for m in w.get("mods", [])])
        views = [common.outcome_of(common.run_batch(c, [kc], shards=1, timeout=120)[0]) for c in cfgs]
        ck.count("known_witnesses_replayed")
        if any(v != views[0] for v in views[1:]):
            ck.known(k.get("id"), k.get("text"))
        else:
            print("NOTE: known finding %s no longer reproduces on this tree (stale entry)" % k.get("id"), flush=True)
    for i, (name, src, mods, gl) in enumerate(progs):
        base = common.outcome_of(outs[ref][i])
        ck.evaluations += len(cfgs)
        if name.startswith("strings/") and "CompileError" in str(base):
            # one expression that does not compile silences the other 399 checks of its battery
            ck.inconclusive.append("battery %s does not compile: none of its checks ran" % name)
        differing = [cfg for cfg in cfgs[1:] if common.outcome_of(outs[cfg][i]) != base]
        if differing:
            kinds = sorted(set(kind_of(outs[c][i]) for c in [ref] + differing))
            ck.violation("ConfigDivergence(%s)" % "/".join(kinds), {
                "program": name, "source": src, "modules": mods, "globals": gl,
                "what": "outcome on %s differs from %s" % (",".join(differing), ref),
                "outcomes": {c: common.outcome_of(outs[c][i])[1][:1500] if common.outcome_of(outs[c][i])[0] == "ran"
                             else str(common.outcome_of(outs[c][i])) for c in [ref] + differing[:3]}})
        if base[0] == "ran" and len(base[1]) > 40:
            ck.note_nontrivial(repr(src))
        if len(ck.samples) < 3 and name.startswith("churn"):
            ck.sample({"program": name, "source": src[-300:], "outcome": base[1][:200]})
    # raw active-fiber pointer coherence on the unchecked build with hooks
    hf = common.run_batch("hookfast", [mk_case(c["id"], c["steps"], {"gc": "default", "dispatch": 1}, c["mods"], c["globals"])
                                       for c in cases], timeout=tmo)
    for i, res in enumerate(hf):
        ck.evaluations += 1
        ck.count("instructions_with_fiber_pointer_checked", res.get("dispatch", {}).get("dispatched", 0))
        for ev in res.get("events", []):
            if ev["sig"] in ("Dispatch(RawFiberPointerIncoherent)", "Dispatch(ActiveChunkNotFrameChunk)"):
                name, src, mods, gl = progs[i]
                ck.violation(ev["sig"], {"program": name, "source": src, "modules": mods, "what": ev["detail"]})
        for st in res.get("steps", []):
            state = st.get("state")
            if state is not None:
                ck.count("fiber_pointer_probes")
                if not state.get("fiber_coherent", True):
                    name, src, mods, gl = progs[i]
                    ck.violation("RawFiberPointerIncoherent", {"program": name, "source": src, "modules": mods,
                                                               "what": "unsafe_fiber != rooted fiber after the run"})
        if common.outcome_of(res) != common.outcome_of(outs[ref][i]):
            name, src, mods, gl = progs[i]
            ck.violation("ConfigDivergence(hookfast)", {"program": name, "source": src, "modules": mods, "globals": gl,
                                                        "what": "outcome on hookfast differs from %s" % ref})
    return ck.finish("programs: repository scripts, GC edge matrix and identity programs, churn loops, edge-value index / built-in / operator sweeps, the C13 string battery, generated profile programs; each run "
                     "on %d build configurations and compared (normalised output + outcome); non-trivial = distinct "
                     "program that ran and printed something" % len(cfgs))


def kind_of(res):
    if "abort" in res:
        return "abort"
    if common.panics_of(res):
        return "panic"
    for st in res.get("steps", []):
        if st.get("res") == "err":
            return "err"
    return "ok"


def replay(data):
    cfgs = ["dev", "rel", "rel-15", "rel-16"]
    common.build(cfgs)
    src = data["source"]
    case = mk_case("replay", [tuple(x) for x in src] if isinstance(src, list) else [snip(src)], {}, data.get("modules"), data.get("globals"))
    outs = [common.outcome_of(common.run_batch(c, [case], shards=1, timeout=600)[0]) for c in cfgs]
    for c, o in zip(cfgs, outs):
        print(c, str(o)[:800])
    if any(o != outs[0] for o in outs):
        print("VIOLATION property=C10 replay=<given>")
        return 1
    return 0
