"""C06 - lexical scoping; closures capture variables, not values.

Oracle A: generated nestings of blocks, functions, lambdas and loops with closure patterns (several
closures over one variable, capture through several levels, captured parameters and loop-body
variables, closures used after their scope was left by fall-through, break, continue, return, throw,
shadowing at every level) against the reference model, which gives every variable a cell.
Oracle B (model-free): the same program with its top level wrapped in a block, in a function and in
a fiber must print the same as the unwrapped program."""
import re

from .. import common
from ..common import Check, mk_case, snip
from ..gen import feat_scope, progs
from . import modelcheck


def profiles(avoid):
    P = progs.Profile
    return [
        ("scope", P(w=dict(var=8, assign=8, print=8, if_=4, while_=4, for_=4, block=5, fn=8, call=8, lam=8, opassign=4,
                           brk=2, cont=2, ret=3, setitem=1, scope=10), probe=10, expr_depth=2, max_depth=4, stmts=(4, 12),
                    closures=60, avoid=avoid)),
        ("scope-patterns", P(w=dict(var=4, assign=4, print=4, if_=1, while_=1, for_=1, block=2, fn=3, call=3, lam=3,
                                    opassign=1, brk=0, cont=0, ret=1, setitem=0, scope=30), probe=5, expr_depth=2,
                             max_depth=3, stmts=(3, 9), closures=60, avoid=avoid)),
    ]


PRELUDE_RE = re.compile(r"^(fn t\(k, v\) \{ print\(k\); return v; \}\n)?(fn show_set.*\n)?(fn show_map.*\n)?")


def wrap(src, how):
    m = PRELUDE_RE.match(src)
    pre, body = src[:m.end()], src[m.end():]
    ind = "\n".join("    " + l for l in body.split("\n"))
    if how == "block":
        return pre + "{\n" + ind + "\n}\n"
    if how == "fn":
        return pre + "fn main_wrapped_() {\n" + ind + "\n}\nmain_wrapped_();\n"
    return pre + "Fiber.new(|| {\n" + ind + "\n}).call();\n"


def visible_part(res):
    st = res["steps"][0] if res.get("steps") else {}
    kind = st.get("kind")
    first = (st.get("msgs") or [None])[0]
    return ([common.norm(t) for t in st.get("out", [])], st.get("res"), kind, common.norm(first) if first else None)


def run(tier):
    ck = Check("C06", tier)
    quick = tier == "quick"
    common.build(["hook"])
    common.replay_witnesses(ck, ["hook"])
    avoid = ck.findings.avoid_tags()
    n = 1200 if quick else 30000 * common.TS
    plist = []
    for name, prof in profiles(avoid):
        rng = ck.rng.fork(name)
        for i in range(n):
            src, mods = progs.generate(rng.fork(str(i)), prof)
            plist.append({"name": "%s/%d" % (name, i), "steps": [("snip", src)], "mods": mods})
    from ..gen import feat_residue
    r6 = ck.rng.fork("residue")
    for i in range(200 if quick else 5000 * common.TS):
        plist.append({"name": "residue/%d" % i, "steps": [("snip", feat_residue.program(r6.fork(str(i))))], "mods": []})
    for name, src in feat_scope.capture_limit_programs():
        plist.append({"name": name, "steps": [("snip", src)], "mods": [], "budget": 3000000})
    rfc = ck.rng.fork("finallycapture")
    for i in range(250 if quick else 8000 * common.TS):
        plist.append({"name": "finallycapture/%d" % i, "steps": [("snip", feat_scope.finally_capture_program(rfc.fork(str(i))))], "mods": []})
    base = {}

    from ..gen import feat_fiber as _ff
    rxf = ck.rng.fork("xmodfib")
    for i in range(250 if quick else 8000 * common.TS):
        _src, _mods = _ff.xmod_fiber_program(rxf.fork(str(i)))
        plist.append({"name": "xmodfiber/%d" % i, "steps": [("snip", _src)], "mods": _mods})

    def seen(p, m, res):
        v = m["view"][0]
        src = p["steps"][0][1]
        if ("||" in src or "|" in src) and len(v["out"]) >= 2:
            ck.note_nontrivial(src)
        ck.count("model_outcome_" + v["res"])
        base[p["name"]] = (visible_part(res), v["res"])
        if len(ck.samples) < 3 and "fn mk" in src:
            ck.sample({"program": p["name"], "source": src[:700], "expected_output": v["out"][:8]})

    # interplay: this check's programs inside stacks of other features' constructs, and every profile's programs inside
    # this feature's constructs (vfpy/gen/feat_ctx.py); the model decides what they must print
    from ..gen import feat_ctx as _ctx
    for _p in _ctx.interplay(ck.rng.fork("interplay"), profiles(avoid), "C06", *((300, 300) if quick else (3000 * common.TS, 3000 * common.TS))):
        for _c in _p["ctx"]:
            ck.count("nesting_context_" + _c)
        plist.append(_p)
    # size ladders: this property's sized things at every size of a ladder straddling powers of two (vfpy/gen/feat_scale.py)
    from ..gen import feat_scale as _scale
    for _p in _scale.programs("C06", ck.rng.fork("scale"), quick):
        ck.count("scale_programs")
        ck.count("scale_template_" + _p["scale"][0])
        plist.append(_p)
    checked, discarded = modelcheck.check_programs(ck, plist, on_result=seen)
    ck.coverage["programs_checked"] = checked
    ck.coverage["programs_discarded_by_model"] = discarded
    # relation B: wrapped variants print the same
    cases = []
    meta = {}
    for p in plist:
        if p["name"] not in base or base[p["name"]][1] == "compile_error" or p["name"].startswith("nest-"):
            continue
        for how in ("block", "fn", "fiber"):
            cid = "%s|%s" % (p["name"], how)
            meta[cid] = (p, how)
            cases.append(mk_case(cid, [snip(wrap(p["steps"][0][1], how))], {"gc": "always", "quarantine": 1}, p["mods"]))
    results = common.run_batch("hook", cases, timeout=common.batch_timeout(tier, len(cases) / 8))
    for case, res in zip(cases, results):
        p, how = meta[case["id"]]
        ck.evaluations += 1
        ck.count("wrapped_variants_run")
        if "abort" in res or common.panics_of(res):
            ck.violation("WrappedVariantDied(%s)" % how, {"program": p["name"], "source": case["steps"][0][1],
                                                          "what": str(res.get("abort") or common.panics_of(res))})
            continue
        got = visible_part(res)
        want = base[p["name"]][0]
        if got != want:
            st = res["steps"][0]
            if st.get("res") == "err" and st.get("kind") == "CompileError":
                ck.count("wrapped_variants_not_compilable")   # e.g. more than 256 locals: not comparable
                continue
            ck.violation("WrappingChangesBehaviour(%s)" % how, {
                "program": p["name"], "source": case["steps"][0][1], "original": p["steps"][0][1],
                "what": "top level wrapped in a %s prints differently" % how, "expected": want, "observed": got})
        for ev in res.get("events", []):
            ck.violation(ev["sig"], {"program": p["name"], "source": case["steps"][0][1], "what": ev["detail"]})
    return ck.finish("programs from the scope profiles compared with the reference model (oracle A), plus three wrapped "
                     "variants of each (block / function / fiber) compared with the unwrapped run (oracle B); the profiles include a scope-kind x variable-position x exit-path matrix, captured variables on fiber stacks and one closure over 200-260 variables; "
                     "non-trivial = distinct program containing closures that printed at least two lines")


def replay(data):
    if "steps" in data:
        return modelcheck.replay_generic(data, "C06")
    common.build(["hook"])
    res = common.run_batch("hook", [mk_case("replay", [snip(data["source"])], {"gc": "always", "quarantine": 1})], shards=1)[0]
    print(res)
    print("VIOLATION property=C06 replay=<given>" if visible_part(res) != tuple(data.get("expected", ())) else "ok")
    return 1
