"""C12 - HashMap behaves as a map keyed by value equality.

Oracle A: operation histories (literal construction, insert, remove, get, has_key, clear, len, keys,
values, items, ==) over up to three maps with key pools containing equal-but-differently-built keys
(1 and 1.0, 0 and -0, equal strings and tuples built separately, nested tuples, ranges inside and
outside the identity cache window), NaN and unhashable values, against an association-list model
under the model's ==; enumerations are compared as multisets. Runs under collect-always with the
poison monitor (keys must be kept alive)."""
from .. import common
from ..common import Check
from ..gen import feat_data, progs
from . import modelcheck


def profiles(avoid):
    P = progs.Profile
    return [("maps-mixed", P(w=dict(var=5, assign=3, print=5, if_=2, while_=2, for_=2, block=1, fn=2, call=2, lam=1, opassign=1,
                                    brk=0, cont=0, ret=1, setitem=1, map_=20), probe=5, expr_depth=2, max_depth=3,
                             stmts=(4, 12), avoid=avoid))]


def run(tier):
    ck = Check("C12", tier)
    quick = tier == "quick"
    common.build(["hook"])
    common.replay_witnesses(ck, ["hook"])
    common.replay_known(ck)
    n = 2500 if quick else 80000 * common.TS
    rng = ck.rng.fork("hist")
    plist = [{"name": "hist/%d" % i, "steps": [("snip", feat_data.map_history(rng.fork(str(i))))], "mods": []} for i in range(n)]
    prof = profiles(ck.findings.avoid_tags())[0][1]
    r2 = ck.rng.fork("mixed")
    for i in range(300 if quick else 8000 * common.TS):
        src, mods = progs.generate(r2.fork(str(i)), prof)
        plist.append({"name": "mixed/%d" % i, "steps": [("snip", src)], "mods": mods})

    for name, src in feat_data.map_size_programs(ck.rng.fork("sizes")):
        plist.append({"name": name, "steps": [("snip", src)], "mods": [], "budget": 3000000})

    def seen(p, m, res):
        v = m["view"][0]
        src = p["steps"][0][1]
        ops = src.count(".insert(") + src.count(".remove(") + src.count(".get(") + src.count(".has_key(")
        if ops >= 3:
            ck.note_nontrivial(src)
        ck.count("map_operations", ops)
        ck.count("unhashable_rejections_expected", sum(1 for t in v["out"] if t.startswith("Cannot use unhashable")))
        if len(ck.samples) < 2 and ops > 8:
            ck.sample({"program": p["name"], "source": src[-900:], "expected_output": v["out"][:14]})

    # interplay: this check's programs inside stacks of other features' constructs, and every profile's programs inside
    # this feature's constructs (vfpy/gen/feat_ctx.py); the model decides what they must print
    from ..gen import feat_ctx as _ctx
    for _p in _ctx.interplay(ck.rng.fork("interplay"), profiles(ck.findings.avoid_tags()), "C12", *((300, 300) if quick else (3000 * common.TS, 3000 * common.TS))):
        for _c in _p["ctx"]:
            ck.count("nesting_context_" + _c)
        plist.append(_p)
    # size ladders: this property's sized things at every size of a ladder straddling powers of two (vfpy/gen/feat_scale.py)
    from ..gen import feat_scale as _scale
    for _p in _scale.programs("C12", ck.rng.fork("scale"), quick):
        ck.count("scale_programs")
        ck.count("scale_template_" + _p["scale"][0])
        plist.append(_p)
    checked, discarded = modelcheck.check_programs(ck, plist, on_result=seen)
    ck.coverage["programs_checked"] = checked
    ck.coverage["programs_discarded_by_model"] = discarded
    return ck.finish("operation histories of 6-40 operations over 1-3 maps with equal-but-differently-built keys, NaN "
                     "and unhashable keys, plus literals of 0-256 entries and maps grown / shrunk across growth points, against an association-list model; non-trivial = distinct history with at "
                     "least 3 keyed operations")


def replay(data):
    return modelcheck.replay_generic(data, "C12")
