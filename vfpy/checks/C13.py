"""C13 - indexing, slicing and string functions match a byte-exact model.

Oracle A, exhaustive on a small space: all strings of length <= 3 over {a, é, €, 😀} (1-, 2-, 3-,
4-byte characters) x every index in {0, +-1, +-len, +-len+-1, every mid-character byte offset, 0.5,
NaN, +-inf, +-2^63} x {index, slice with both ends from that set}; the same for vectors and tuples;
every string method over argument pools built the same way; String.from_* over byte / code-point
lists covering every UTF-8 boundary class; every escape form in literals. The reference model works
on bytes. Checks are batched several hundred per program; each is wrapped so that the error class
and message are part of the expectation."""
import itertools

from .. import common
from ..common import Check
from . import modelcheck

ALPHABET = ["a", "é", "€", "😀"]
SPECIAL_IDX = ["0.5", "(0 / 0)", "(1 / 0)", "(-1 / 0)", "9223372036854775808", "-9223372036854775808", "4294967296", "1.0", "-0"]


def lit(s):
    return '"' + s.replace("\\", "\\\\").replace('"', '\\"').replace("$", "\\$") + '"'


BOUNDARY_CHARS = ["\u0080", "\u07ff", "\u0800", "\u0fff", "\u1000", "\ud7ff", "\ue000", "\uffff", "\U00010000", "\U0010ffff", "\x7f"]


def boundary_strings():
    """characters sitting on every UTF-8 length / lead-byte boundary"""
    out = []
    for c in BOUNDARY_CHARS:
        out += [c, "a" + c, c + "b", c + c]
    out.append("".join(BOUNDARY_CHARS))
    out.append("x" + "".join(reversed(BOUNDARY_CHARS)) + "y")
    return out


def all_strings(maxlen):
    out = [""]
    for n in range(1, maxlen + 1):
        for t in itertools.product(ALPHABET, repeat=n):
            out.append("".join(t))
    return out


def index_set(nbytes):
    s = {0, 1, -1, nbytes, -nbytes, nbytes + 1, -nbytes - 1, nbytes - 1, 2, -2}
    return sorted(s)


def wrap(expr):
    return "try { print(%s); } catch e { print(type(e)); print(e.context); }" % expr


def checks(quick, rng):
    out = []
    strs = all_strings(3 if quick else 5)
    for s in strs:
        n = len(s.encode())
        idx = [str(i) for i in range(-n - 1, n + 2)]
        for i in idx + SPECIAL_IDX:
            out.append("%s[%s]" % (lit(s), i))
        ends = idx if n <= 6 else index_set(n)
        ends = [str(e) for e in ends]
        pairs = [(a, b) for a in ends for b in ends]
        if quick and len(pairs) > 60:
            pairs = rng.sample(pairs, 60)
        for a, b in pairs:
            out.append("%s[%s..%s]" % (lit(s), a if not a.startswith("-") else "(%s)" % a, b if not b.startswith("-") else "(%s)" % b))
        for b in SPECIAL_IDX[:6]:
            out.append("%s[0..%s]" % (lit(s), b))
            out.append("%s[%s..1]" % (lit(s), b))
    for s in boundary_strings():
        n = len(s.encode())
        L = lit(s)
        for i in range(-n - 1, n + 2):
            out.append("%s[%d]" % (L, i))
        for i in range(-len(s) - 1, len(s) + 2):
            out.append("%s.char_byte_index(%d)" % (L, i))
        for m in ["len()", "count_chars()", "to_bytes()", "to_code_points()", "iter().collect()"]:
            out.append("%s.%s" % (L, m))
        ends = list(range(0, n + 1))
        pairs = [(a, b) for a in ends for b in ends if a <= b]
        if len(pairs) > 80:
            pairs = rng.sample(pairs, 80)
        for a, b in pairs:
            out.append("%s[%d..%d]" % (L, a, b))
        for sub in BOUNDARY_CHARS[:6] + ["a"]:
            for st in rng.sample(list(range(0, max(n, 1))), min(4, max(n, 1))):
                out.append("%s.find(%s, %d)" % (L, lit(sub), st))
            out.append("%s.split(%s)" % (L, lit(sub)))
            out.append("%s.replace(%s, \"-\")" % (L, lit(sub)))
        out.append("String.from_utf8(%s.to_bytes()) == %s" % (L, L))
        out.append("String.from_code_points(%s.to_code_points()) == %s" % (L, L))
    # sequences
    for seq in ["[]", "[1]", "[1, \"b\"]", "[1, 2, 3]", "()", "(1,)", "(1, \"b\")", "(1, 2, 3)"]:
        n = seq.count(",") + (0 if seq in ("[]", "()") else 1) - (1 if seq == "(1,)" else 0)
        idx = [str(i) for i in range(-n - 2, n + 3)]
        for i in idx + SPECIAL_IDX:
            out.append("%s[%s]" % (seq, i))
        for a in idx:
            for b in idx:
                out.append("%s[(%s)..(%s)]" % (seq, a, b))
        if seq.startswith("["):
            for i in idx + SPECIAL_IDX[:4]:
                out.append("(|| { var v = %s; v[%s] = \"set\"; return v; })()" % (seq, i))
    # a slice is a fresh sequence: changing it never changes the sequence it was taken from, and vice versa
    for seq in ["[]", "[1]", "[1, 2, 3]", "[1, [2], \"c\", 4]"]:
        n = 0 if seq == "[]" else seq.count(",") + 1
        for a in range(-n - 1, n + 2):
            for b in range(-n - 1, n + 2):
                out.append("(|| { var v = %s; var s = v[(%d)..(%d)]; s.push(\"p\"); s[0] = \"m\"; v.push(\"q\"); "
                           "if v.len() > 1 { v[1] = \"w\"; } return [v, s, v == s]; })()" % (seq, a, b))
    for bad in ["nil", "1", "true", "{1: 2}", "|| 1", "Vec"]:
        out.append("%s[0]" % bad)
        out.append("[1, 2][%s]" % bad)
        out.append("\"ab\"[%s]" % bad)
    # string methods
    subs = ["", "a", "é", "€", "😀", "aa", "aé", "b"]
    pool = strs if not quick else [s for s in strs if len(s) <= 2] + rng.sample([s for s in strs if len(s) == 3], 20)
    for s in pool:
        L = lit(s)
        n = len(s.encode())
        for m in ["len()", "count_chars()", "is_alpha()", "is_digit()", "is_hexdigit()", "to_num()", "to_bytes()", "to_code_points()",
                  "iter().collect()", "len(1)", "to_bytes(1)"]:
            out.append("%s.%s" % (L, m))
        for i in [str(k) for k in range(-len(s) - 1, len(s) + 2)] + SPECIAL_IDX[:5] + ["nil", "\"0\""]:
            out.append("%s.char_byte_index(%s)" % (L, i))
        for sub in subs:
            starts = [str(k) for k in range(-n - 1, n + 2)] if len(s) <= 2 else [str(k) for k in index_set(n)]
            if quick:
                starts = rng.sample(starts, min(len(starts), 5))
            for st in starts:
                out.append("%s.find(%s, %s)" % (L, lit(sub), st))
            out.append("%s.split(%s)" % (L, lit(sub)))
            out.append("%s.starts_with(%s)" % (L, lit(sub)))
            out.append("%s.ends_with(%s)" % (L, lit(sub)))
            for rep in ["", "X", "😀"]:
                out.append("%s.replace(%s, %s)" % (L, lit(sub), lit(rep)))
        for badarg in ["nil", "1", "[\"a\"]"]:
            out.append("%s.find(%s, 0)" % (L, badarg))
            out.append("%s.split(%s)" % (L, badarg))
            out.append("%s.replace(%s, \"x\")" % (L, badarg))
            out.append("%s.replace(\"a\", %s)" % (L, badarg))
            out.append("%s.starts_with(%s)" % (L, badarg))
            out.append("%s.find(\"a\", %s)" % (L, badarg))
        out.append("%s.find(\"a\")" % L)
        out.append("%s.replace(\"a\")" % L)
        out.append("%s + %s" % (L, L))
        out.append("\"<${%s}>\"" % L)
    # needles that overlap themselves inside the receiver, needles longer than / equal to / one shorter than the receiver, and
    # replacements of the same, smaller and greater byte length than the needle (fast paths for equal sizes, scans that stop
    # at len - needle_len)
    for s, needles in [("aaa", ["aa", "aaa", "aaaa"]), ("aaaa", ["aa", "aaa"]), ("ababa", ["aba", "ab", "bab", "ababab"]), ("ééé", ["éé", "é", "éééé"]),
                       ("abcabcab", ["abcab", "bca", "cab"]), ("aXaXa", ["aXa", "XaX"]), ("€€€", ["€€"]), ("a😀a😀a", ["a😀a", "😀a😀"]), ("", ["a", "aa"]),
                       ("ab", ["abc", "ab", "b", "bc"]), ("é", ["éa", "aé", "é"])]:
        L = lit(s)
        for nd in needles:
            nb = len(nd.encode())
            reps = ["", "b" * nb, "é" * (nb // 2) + "x" * (nb % 2), "Z", nd + nd, nd[::-1], "€"]
            for rp in reps:
                out.append("%s.replace(%s, %s)" % (L, lit(nd), lit(rp)))
            out.append("%s.split(%s)" % (L, lit(nd)))
            out.append("%s.starts_with(%s)" % (L, lit(nd)))
            out.append("%s.ends_with(%s)" % (L, lit(nd)))
            for st in range(0, len(s.encode()) + 1):
                out.append("%s.find(%s, %d)" % (L, lit(nd), st))
    for t in ["1", "1.5", "-0", "1e5", "+1", ".5", "5.", "inf", "-inf", "NaN", "nan", "infinity", "Infinity", " 1", "1 ", "0x10", "1_0",
              "", "١", "1e", "e1", "--1", "1..2", "9007199254740993", "1e400", "-1e-400", "0.1", "٣"]:
        out.append("%s.to_num()" % lit(t))
    # String.from_*
    bytes_pool = [[], [97], [255], [195, 169], [226, 130, 172], [240, 159, 152, 128], [195], [169], [226, 130], [240, 159, 152],
                  [192, 128], [224, 128, 128], [237, 160, 128], [244, 144, 128, 128], [128], [0], [97, 0, 98], [256], [-1], [1.5],
                  [97, 256], [195, 40], [254], [193, 191]]
    for b in bytes_pool:
        v = "[" + ", ".join(str(x) for x in b) + "]"
        out.append("String.from_utf8(%s)" % v)
        out.append("String.from_ascii(%s)" % v)
    for b in range(0, 256, 7 if quick else 1):
        out.append("String.from_ascii([%d]).to_bytes()" % b)
        out.append("String.from_utf8([%d])" % b)
    for cps in [[], [97], [233], [8364], [128512], [55296], [57343], [55295], [57344], [1114111], [1114112], [4294967295], [4294967296],
                [-1], [0.5], [97, 55296], [0]]:
        out.append("String.from_code_points([%s])" % ", ".join(str(x) for x in cps))
    for bad in ["nil", "1", "\"a\"", "(97,)", "[\"a\"]", "[nil]", "[[97]]"]:
        for f in ["from_ascii", "from_utf8", "from_code_points"]:
            out.append("String.%s(%s)" % (f, bad))
    out.append("String.from_ascii()")
    out.append("String.from_utf8([1], [2])")
    for v in ["nil", "true", "1", "-0", "0.1", "\"s\"", "[1, \"a\"]", "(1,)", "()", "0..2", "String", "{}", "[[]]"]:
        out.append("String.from(%s)" % v)
        out.append("String.from(%s).len()" % v)
    # escapes in literals (valid ones; invalid ones are separate programs)
    for e in ["\\n", "\\t", "\\r", "\\a", "\\b", "\\f", "\\v", "\\0", "\\\\", "\\\"", "\\$", "\\x41", "\\x7f", "\\x80", "\\xbf", "\\xc0", "\\xe9", "\\xff",
              "\\uc3a9", "\\Uf09f9880", "\\u4142", "\\xe9\\xe9", "a\\x41b"]:
        out.append("\"%s\".to_bytes()" % e)
        out.append("\"%s\".len()" % e)
    return out


INVALID_LITERALS = [("\"\\q\"", "Invalid escape sequence."), ("\"\\x4\"", "Invalid hexadecimal sequence."), ("\"\\xZZ\"", "Invalid hexadecimal sequence."),
                    ("\"\\u00e9\"", "Invalid Unicode sequence."), ("\"\\uZZZZ\"", "Invalid Unicode sequence."), ("\"\\U00000041\"", None),
                    ("\"\\u12\"", "Invalid Unicode sequence."), ("\"\\ue282\"", "Invalid Unicode sequence."), ("\"abc", "Unterminated string."), ("\"${1\"", None), ("\"$x\"", "Expected '{' in string interpolation.")]


def run(tier):
    ck = Check("C13", tier)
    quick = tier == "quick"
    common.build(["hook"])
    common.replay_witnesses(ck, ["hook"])
    exprs = checks(quick, ck.rng.fork("sample"))
    ck.coverage["checks_enumerated"] = len(exprs)
    per = 400
    plist = []
    for i in range(0, len(exprs), per):
        chunk = exprs[i:i + per]
        src = "\n".join(wrap(e) for e in chunk) + "\n"
        plist.append({"name": "batch/%d" % (i // per), "steps": [("snip", src)], "mods": [], "budget": 3000000, "exprs": chunk})
    for j, (litsrc, msg) in enumerate(INVALID_LITERALS):
        plist.append({"name": "invalid-literal/%d" % j, "steps": [("snip", "print(1);\nvar s = %s;\nprint(s);\n" % litsrc)], "mods": []})

    def seen(p, m, res):
        v = m["view"][0]
        n = len(p.get("exprs", [])) or 1
        if p.get("exprs") and v.get("res") == "compile_error":
            # one expression that does not compile silences every other check of its batch: that is a defect of the battery
            ck.inconclusive.append("battery %s does not compile (%s): none of its %d checks ran" % (p["name"], v.get("msg"), n))
            return
        ck.count("individual_checks", n)
        for e in p.get("exprs", []) or [p["steps"][0][1]]:
            ck.note_nontrivial(e)
        ck.count("expected_errors", sum(1 for t in v["out"] if t.startswith("<class ") and t.endswith("Error>")))
        if len(ck.samples) < 2 and p.get("exprs"):
            ck.sample({"checks": p["exprs"][:6], "expected_output": v["out"][:9]})

    # size ladders: this property's sized things at every size of a ladder straddling powers of two (vfpy/gen/feat_scale.py)
    from ..gen import feat_scale as _scale
    for _p in _scale.programs("C13", ck.rng.fork("scale"), quick):
        ck.count("scale_programs")
        ck.count("scale_template_" + _p["scale"][0])
        plist.append(_p)
    checked, discarded = modelcheck.check_programs(ck, plist, on_result=seen, opts={"gc": "never"})
    ck.evaluations = ck.coverage.get("individual_checks", ck.evaluations)
    ck.coverage["programs_checked"] = checked
    ck.coverage["programs_discarded_by_model"] = discarded
    if discarded:
        ck.inconclusive.append("%d batches were discarded by the model" % discarded)
    return ck.finish("every string of length <= %d over {a, é, €, 😀} x every byte index / special index x index and "
                     "slice, sequences of length <= 3 (values and freshness of slices), every string method over substring/index pools, String.from_* over "
                     "byte and code-point lists, escape forms; batched 400 checks per program, each compared with the "
                     "byte-level model; non-trivial = distinct check expression" % (3 if quick else 5),
                     exhaustive=not quick)


def replay(data):
    return modelcheck.replay_generic(data, "C13")
