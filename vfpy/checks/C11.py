"""C11 - strings are equal exactly when their contents are equal.

(a) The intern table in isolation (hook H7) against a dictionary model, inside the runner: histories
    of insert/get with hash functions chosen by the harness - honest FNV, constant, equal low k bits
    (k = 2..12), groups of distinct texts sharing one full hash, hashes at the top of the range (probe
    wrap-around), consecutive home slots - so that growth happens at every size with long chains;
    after every operation: found iff interned, at the address returned at insertion (identity
    survives every rehash), and the structural audit holds (count = occupied slots, load <= 0.75,
    every entry reachable from its home slot without crossing an empty slot, no bytes stored twice).
(b) In the VM: the same byte string built by every route (literal, escape forms, +, interpolation,
    slicing, split, replace, iteration, String.from, from_utf8, from_ascii, from_code_points, host
    created) interleaved with thousands of unrelated strings must be == , select the same map entry,
    global and field; the runner checks pointer identity of host-created duplicates and audits the
    live table."""
import struct

from .. import common
from ..common import Check, mk_case, snip
from . import modelcheck

TARGETS = ["abc", "hello world", "a", "", "héllo", "€uro", "😀", "x1y2", "12", "3.5", "tab\there", "q\"q", "line\nbreak", "$dollar",
           # every length class a hash function might treat differently (word-at-a-time paths start at 8 / 16 / 32 / 64 bytes)
           "1234567", "12345678", "123456789", "exactly sixteen!", "seventeen bytes!!", "thirty-one bytes of plain text!",
           "thirty-two bytes of plain text!!", "quick brown fox jumps over the lazy dog and keeps on running",
           "sixty-four bytes: 0123456789abcdef0123456789abcdef0123456789abcd", "é€😀 mixed widths repeated é€😀 mixed widths repeated é€😀 end",
           "name=Bartholomew Fitzgerald Montgomery-Smythe", "x" * 100, "ab" * 130,
           # single characters reached by iteration / indexing whose code points agree in their low bits (a cache of
           # one-character strings keyed by a truncated code point would mix them up)
           # line breaks and tabs, written raw inside the literal as well as escaped
           "two\nline\nbreaks", "\nleading", "trailing\n", "\n", "tab\tand\nbreak in one text that is longer than thirty-two bytes", "a\n\nb",
           "года 2024", "2024 года", "αβγ abc", "аa\u0161a", "\u0100\u0200\u0300\u0400 AB", "\u0430\u0030\u0530\u0130", "中文 -e"]


def lit(s):
    out = s.replace("\\", "\\\\").replace('"', '\\"').replace("$", "\\$").replace("\n", "\\n").replace("\t", "\\t")
    return '"' + out + '"'


def esc_form(s):
    """the same bytes written with \\x / \\u / \\U escapes where possible"""
    out = []
    for ch in s:
        b = ch.encode()
        if len(b) == 1:
            out.append("\\x%02x" % b[0])
        elif len(b) == 2:
            out.append("\\u%02x%02x" % (b[0], b[1]))
        elif len(b) == 4:
            out.append("\\U%02x%02x%02x%02x" % tuple(b))
        else:
            out.append(ch)
    return '"' + "".join(out) + '"'


def routes_program(rng, target, njunk):
    r = rng
    s = target
    L = ["var base = %s;" % lit(s), "var routes = [];", "routes.push(%s);" % lit(s), "routes.push(%s);" % esc_form(s)]
    if "\n" in s or "\t" in s:
        # the same text with its line breaks and tabs written raw inside the literal (the literal spans several source lines),
        # alone and as the literal parts of an interpolation
        raw = '"' + s.replace("\\", "\\\\").replace('"', '\\"').replace("$", "\\$") + '"'
        L.append("routes.push(%s);" % raw)
        L.append("var empty_part = \"\"; routes.push(\"${empty_part}%s\");" % raw[1:-1])
    cut = r.range(0, len(s))
    a, b = s[:cut], s[cut:]
    L.append("var part_a = %s; var part_b = %s;" % (lit(a), lit(b)))
    L.append("routes.push(part_a + part_b);")
    L.append("routes.push(\"${part_a}${part_b}\");")
    L.append("routes.push(\"${part_a}\" + %s);" % lit(b))
    # cut out of larger strings at every byte offset modulo 8 (the cut shares no allocation with an equal literal)
    for padlen in r.sample(list(range(0, 12)), 4):
        pad1, pad2 = ("<<é" + "p" * 12)[:padlen] if padlen != 3 else "<<p", "€>>"
        big = pad1 + s + pad2
        i, j = len(pad1.encode()), len(pad1.encode()) + len(s.encode())
        if s:
            L.append("routes.push(%s[%d..%d]);" % (lit(big), i, j))
    if "," not in s and s:
        L.append("routes.push(%s.split(\",\")[1]);" % lit("zz," + s + ",yy"))
        L.append("routes.push(%s.split(\",\")[%d]);" % (lit("a,bc,def," + s), 3))
    if "#" not in s and s:
        L.append("routes.push(%s.replace(\"#\", %s));" % (lit("#"), lit(s)))
        L.append("routes.push(%s.replace(\"#\", \"\"));" % lit(s[:cut] + "#" + s[cut:]))
    L.append("{ var acc = \"\"; for ch in base { acc = acc + ch; } routes.push(acc); }")
    # every single character, reached by iteration and by indexing, against the same character cut out by a range
    L.append("{ var pos = 0; var okc = true; for ch in base { var w = ch.len(); if base[pos] != ch || base[pos..(pos + w)] != ch || "
             "String.from_code_points(ch.to_code_points()) != ch || ch.to_bytes() != base[pos..(pos + w)].to_bytes() { okc = false; } pos = pos + w; } print(okc); }")
    L.append("{ var seen = {}; for ch in base { seen.insert(ch, ch.to_bytes()); } var okm = true; for ch in base { if seen.get(ch) != ch.to_bytes() { okm = false; } } print(okm); }")
    L.append("routes.push(String.from(base));")
    L.append("routes.push(String.from_utf8(base.to_bytes()));")
    L.append("routes.push(String.from_code_points(base.to_code_points()));")
    if all(ord(c) < 128 for c in s):
        L.append("routes.push(String.from_ascii(base.to_bytes()));")
    try:
        num = float(s)
        if s == common_fmt(num):
            L.append("routes.push(String.from(%s));" % s)
            L.append("routes.push(\"${%s}\");" % s)
    except ValueError:
        pass
    L.append("routes.push(host_str(base));")
    L.append("routes.push(host_echo(base));")
    # unrelated strings in between, forcing table growth
    L.append("var junk_count = 0;")
    L.append("for i in 0..%d { var junk = \"u${i}\" + \"%s\"; junk_count = junk_count + junk.len() - junk.len() + 1; }" % (njunk, r.choice(["x", "é", ""])))
    L.append("routes.push(part_a + part_b);")
    L.append("routes.push(host_str(base));")
    L.append("for rt in routes { print(rt == base); }")
    L.append("var m = {}; m.insert(base, \"found\");")
    L.append("for rt in routes { print(m.get(rt)); }")
    L.append("var m2 = {}; for rt in routes { m2.insert(rt, 1); } print(m2.len());")
    L.append("#[constructor(new)] class Holder {}")
    L.append("var h = Holder.new(); h.field_one = 1; print(h.field_one);")
    L.append("print(host_value_one + host_value_two);")
    L.append("var probe = routes[%d];" % r.range(2, 5))
    L.append("print(junk_count);")
    return "\n".join(L) + "\n"


def common_fmt(x):
    from ..model.interp import fmt_num
    return fmt_num(x)


def f64_bits(x):
    return struct.unpack("<Q", struct.pack("<d", float(x)))[0]


def run(tier):
    ck = Check("C11", tier)
    quick = tier == "quick"
    common.build(["hook"])
    rng = ck.rng
    # ---- (a) isolated table histories
    modes = ["fnv", "const", "wrap", "seq", "group2", "group4", "group16"] + ["low%d" % k for k in range(2, 13)]
    cases = []
    for mode in modes:
        reps = 2 if quick else 6
        for rep in range(reps):
            if mode == "const":
                ops = 1500 if quick else 4000
            elif mode in ("seq", "wrap"):
                ops = 3000 if quick else 9000
            elif mode == "fnv":
                ops = 14000 if quick else 30000      # the audit after every operation makes a history quadratic
            else:
                ops = 6000 if quick else 14000
            cases.append(mk_case("store:%s:%d" % (mode, rep), [("strstore", rng.next() & 0xFFFFFFFF, ops, mode)], {"gc": "never"}))
    results = common.run_batch("hook", cases, timeout=common.batch_timeout(tier, len(cases)), case_timeout=300)
    sizes = set()
    for case, res in zip(cases, results):
        if "abort" in res and res["abort"].get("why") in ("timeout", "not-run"):
            # the harness's own long history ran into the watchdog: no verdict about the table
            ck.inconclusive.append("intern-table history %s did not finish within the watchdog period" % case["id"])
            continue
        if "abort" in res or common.panics_of(res):
            ck.violation("StoreHistoryDied", {"case": case["id"], "what": str(res.get("abort") or common.panics_of(res))[:2000], "step": case["steps"][0]})
            continue
        st = res["steps"][0]
        ck.evaluations += st["ops"]
        ck.count("table_operations", st["ops"])
        ck.count("table_growths", st["growths"])
        ck.count("table_audits", st["audits"])
        ck.coverage["max_table_capacity"] = max(ck.coverage.get("max_table_capacity", 0), st["max_capacity"])
        ck.note_nontrivial(case["id"])
        for problem in st["problems"]:
            ck.violation("InternTable(%s)" % problem.split(":")[1].strip().split(" ")[0] if ":" in problem else "InternTable",
                         {"case": case["id"], "what": problem, "step": case["steps"][0]})
        if len(ck.samples) < 2:
            ck.sample({"history": case["id"], "observed": {k: st[k] for k in ("ops", "inserted", "hits", "misses", "growths", "max_capacity", "audits")}})
    ck.coverage["hash_modes"] = modes
    # ---- (b) routes inside the VM
    plist = []
    r2 = rng.fork("routes")
    for i in range(150 if quick else 3000):
        target = r2.choice(TARGETS)
        njunk = r2.choice([0, 3, 40, 700, 3000] if quick else [0, 3, 40, 700, 3000, 20000])
        src = routes_program(r2.fork(str(i)), target, njunk)
        plist.append({"name": "routes/%d" % i, "steps": [("snip", src), ("intern", target)], "mods": [], "natives": True,
                      "globals": [("host_value_one", f64_bits(20)), ("host_value_two", f64_bits(22))],
                      "globals_f": [("host_value_one", 20.0), ("host_value_two", 22.0)], "budget": 3000000, "target": target})

    def seen(p, m, res):
        ck.note_nontrivial(p["steps"][0][1])
        st = res["steps"][1] if len(res.get("steps", [])) > 1 else None
        if st is None:
            return
        ck.count("host_identity_probes")
        if not st.get("same") or not st.get("has_probe") or not st.get("probe_same") or not st.get("probe_bytes_equal"):
            ck.violation("HostStringIdentity", modelcheck.replay_of(p, "hook", "host-created string is not the program's string object: %s" % st, m))
        if st.get("table_audit") != "ok":
            ck.violation("LiveInternTableAudit", modelcheck.replay_of(p, "hook", "live table audit: %s" % st.get("table_audit"), m))
        ck.coverage["max_live_table_entries"] = max(ck.coverage.get("max_live_table_entries", 0), st.get("table_entries", 0))

    # the model has no INTERN step: give it only the snippet
    for p in plist:
        p["model_steps"] = [p["steps"][0]]
    checked, discarded = check_with_intern(ck, plist, seen)
    ck.coverage["route_programs_checked"] = checked
    # ---- (c) compilations that fail after having interned many new strings (a snippet with a syntax error at its end, an
    # import of a module that does not compile, caught by the program), at every fill level of the table: afterwards every
    # older string built again by another route is still the one object (==, map lookup, host identity, live-table audit)
    hplist = []
    r3 = rng.fork("failedcompile")
    for i in range(160 if quick else 4000):
        r = r3.fork(str(i))
        n_old = r.choice([5, 40, 90, 150, 180, 250, 330, 400, 700])
        n_new = r.choice([30, 100, 200, 260, 400, 600, 1100])
        tag = "%x" % (r.next() & 0xFFFFF)
        olds = ["o%d_%s" % (k, tag) for k in range(n_old)]
        first = "var olds = [%s];\nvar m = {}; for o in olds { m.insert(o, o.len()); }\nvar probe = olds[0];\nprint(olds.len());\n" % ", ".join('"%s"' % o for o in olds)
        news = ", ".join('"n%d_%s_%d"' % (k, tag, i) for k in range(n_new))
        idents = " ".join("var id%d_%s = %d;" % (k, tag, k) for k in range(min(n_new, 300)))
        bad_src = "var news = [%s];\n%s\nvar broken = ;\n" % (news, idents)
        recheck = ("var same = 0; var found = 0; var k = 0;\nwhile k < olds.len() { var again = \"o\" + String.from(k) + \"_%s\"; if again == olds[k] { same += 1; } "
                   "if m.get(again) == again.len() { found += 1; } k += 1; }\nprint(same); print(found); print(m.len());\n"
                   "var m2 = {}; for o in olds { m2.insert(o + \"\", 1); m2.insert(\"${o}\", 2); } print(m2.len());\n" % tag)
        how = r.below(3)
        if how == 0:
            steps = [("snip", first), ("snip", bad_src), ("snip", recheck), ("intern", olds[0])]
            mods = []
        elif how == 1:
            steps = [("snip", first), ("snip", "try { import \"badmod\" as b; } catch e { print(type(e)); }\n" + recheck), ("intern", olds[0])]
            mods = [("badmod", bad_src)]
        else:
            steps = [("snip", first), ("snip", bad_src), ("snip", "try { import \"badmod\" as b; } catch e { print(type(e)); }\n"),
                     ("snip", bad_src.replace("n0_", "q0_")), ("snip", recheck), ("intern", olds[0])]
            mods = [("badmod", bad_src.replace("_%d\"" % i, "_%dm\"" % i))]
        hplist.append({"name": "failedcompile/%d" % i, "steps": steps, "mods": mods, "natives": True, "globals": [], "budget": 6000000})
    hmodels = modelcheck.run_models([dict(p, steps=[st for st in p["steps"] if st[0] != "intern"]) for p in hplist])
    hcases = [mk_case("f%d" % i, p["steps"], {"gc": "never", "natives": 1}, p["mods"]) for i, p in enumerate(hplist)]
    hres = common.run_batch("hook", hcases, timeout=common.batch_timeout(tier, len(hcases)))
    for p, m, res in zip(hplist, hmodels, hres):
        ck.evaluations += 1
        ck.count("failed_compile_histories")
        if "abort" in res or common.panics_of(res):
            ck.violation("FailedCompileHistoryDied", modelcheck.replay_of(p, "hook", str(res.get("abort") or common.panics_of(res))[:2000], m))
            continue
        if "view" not in m:
            ck.inconclusive.append("model could not run %s" % p["name"])
            continue
        real_snips = [st for st in res["steps"] if st.get("k") == "snip"]
        for ms, rs in zip(m["view"], real_snips):
            problem = modelcheck.compare_step(ms, rs)
            if problem:
                ck.violation("ModelMismatch(%s)" % modelcheck.classify(problem), modelcheck.replay_of(p, "hook", problem, m))
                break
        st = res["steps"][-1]
        if st.get("table_audit") != "ok":
            ck.violation("LiveInternTableAudit", modelcheck.replay_of(p, "hook", "live table audit after a failed compilation: %s" % st.get("table_audit"), m))
        if not st.get("same") or (st.get("has_probe") and not st.get("probe_same")):
            ck.violation("HostStringIdentity", modelcheck.replay_of(p, "hook", "host-created string is not the program's string object: %s" % st, m))
        if st.get("has_probe"):
            ck.count("failed_compile_host_identity_probes")
        ck.coverage["max_live_table_entries"] = max(ck.coverage.get("max_live_table_entries", 0), st.get("table_entries", 0))
    # size ladders: string literals and identifiers of every length of a ladder straddling powers of two, each compared with
    # the same text built piecewise at run time (vfpy/gen/feat_scale.py); decided by the reference model
    from ..gen import feat_scale as _scale
    from . import modelcheck as _mc
    _sp = _scale.programs("C11", ck.rng.fork("scale"), quick)
    ck.coverage["scale_programs"] = len(_sp)
    _mc.check_programs(ck, _sp)
    return ck.finish("(a) isolated intern-table histories under %d hash modes against a dictionary, audited after every "
                     "operation; (b) programs building one byte string (0-260 bytes, every length class) by up to 22 routes incl. cuts at random byte offsets among up to 20000 unrelated "
                     "strings, compared by ==, map lookup, host pointer identity and live-table audit; non-trivial = "
                     "distinct history / program" % len(modes))


def check_with_intern(ck, plist, seen):
    """like modelcheck.check_programs, but the real run has an extra INTERN step the model ignores"""
    model_progs = [dict(p, steps=p["model_steps"]) for p in plist]
    models = modelcheck.run_models(model_progs)
    cases = []
    keep = []
    for i, (p, m) in enumerate(zip(plist, models)):
        if "view" not in m or any(s.get("res") in ("unsupported", "budget") for s in m["view"]):
            ck.inconclusive.append("model could not run %s: %s" % (p["name"], m.get("crash") or [s.get("why") for s in m.get("view", [])]))
            continue
        cases.append(mk_case("r%d" % i, p["steps"], {"gc": "never", "natives": 1}, p["mods"], p["globals"]))
        keep.append((p, m))
    results = common.run_batch("hook", cases, timeout=common.batch_timeout(ck.tier, len(cases)))
    for (p, m), res in zip(keep, results):
        ck.evaluations += 1
        if "abort" in res or common.panics_of(res):
            ck.violation("RoutesProgramDied", modelcheck.replay_of(p, "hook", str(res.get("abort") or common.panics_of(res))[:2000], m))
            continue
        problem = modelcheck.compare_step(m["view"][0], res["steps"][0])
        if problem:
            ck.violation("ModelMismatch(%s)" % modelcheck.classify(problem), modelcheck.replay_of(p, "hook", problem, m))
        seen(p, m, res)
    return len(keep), 0


def replay(data):
    common.build(["hook"])
    if "step" in data:
        st = data["step"]
        res = common.run_batch("hook", [mk_case("replay", [tuple(st)], {"gc": "never"})], shards=1, timeout=600)[0]
        print(res)
        bad = "abort" in res or res["steps"][0].get("problems")
        print("VIOLATION property=C11 replay=<given>" if bad else "ok")
        return 1 if bad else 0
    return modelcheck.replay_generic(dict(data, steps=[s for s in data["steps"] if s[0] == "snip"]), "C11")
