"""C03 thorough: coverage-guided fuzzing of compiler::compile (libFuzzer + ASan through cargo-fuzz);
anything it finds is replayed through the ordinary oracle before it is believed."""
import os
import shutil
import subprocess

from .. import common
from ..common import mk_case

FUZZ_TARGET = '''#![no_main]
use libfuzzer_sys::fuzz_target;
use yarel::compiler;
use yarel::vm::Vm;
use std::cell::Cell;
// The interpreter is kept behind a raw pointer and never dropped at process exit: yarel's heap is a
// thread-local of its own, and thread-local destructors run in an unspecified order (dropping a Vm
// after the heap is gone would be a harness artefact, not a finding). It is renewed every 2000 inputs.
thread_local! { static VM: Cell<*mut Vm> = Cell::new(std::ptr::null_mut()); static N: Cell<u32> = Cell::new(0); }
fuzz_target!(|data: &[u8]| {
    if let Ok(text) = std::str::from_utf8(data) {
        let n = N.with(|n| { n.set(n.get() + 1); n.get() });
        let mut p = VM.with(|v| v.get());
        if !p.is_null() && n % 2000 == 0 {
            unsafe { drop(Box::from_raw(p)); }
            p = std::ptr::null_mut();
        }
        if p.is_null() {
            p = Box::into_raw(Box::new(Vm::with_built_ins()));
            VM.with(|v| v.set(p));
        }
        let vm = unsafe { &mut *p };
        let _ = compiler::compile(vm, text.to_owned(), None);
    }
});
'''


def run_compile_fuzz(ck, seconds=600):
    root = os.path.join(common.BUILD_ROOT, "fuzz")
    fdir = os.path.join(root, "fuzz")
    os.makedirs(os.path.join(fdir, "fuzz_targets"), exist_ok=True)
    open(os.path.join(root, "Cargo.toml"), "w").write(
        "[package]\nname = \"fz\"\nversion = \"0.1.0\"\nedition = \"2018\"\n[dependencies]\nyarel = { path = \"%s/yarel\" }\n[workspace]\nmembers = [\".\"]\nexclude = [\"fuzz\"]\n" % os.path.abspath(common.REPO))
    os.makedirs(os.path.join(root, "src"), exist_ok=True)
    open(os.path.join(root, "src", "lib.rs"), "w").write("")
    open(os.path.join(fdir, "Cargo.toml"), "w").write(
        "[package]\nname = \"fz-fuzz\"\nversion = \"0.0.0\"\nedition = \"2018\"\npublish = false\n[package.metadata]\ncargo-fuzz = true\n"
        "[dependencies]\nlibfuzzer-sys = \"0.4\"\nyarel = { path = \"%s/yarel\" }\n[[bin]]\nname = \"compile\"\npath = \"fuzz_targets/compile.rs\"\ntest = false\ndoc = false\nbench = false\n[workspace]\n" % os.path.abspath(common.REPO))
    open(os.path.join(fdir, "fuzz_targets", "compile.rs"), "w").write(FUZZ_TARGET)
    corpus = os.path.join(fdir, "corpus", "compile")
    os.makedirs(corpus, exist_ok=True)
    scripts, _ = common.scripts_corpus()
    for i, (name, src) in enumerate(scripts):
        open(os.path.join(corpus, "s%d" % i), "w").write(src)
    env = dict(os.environ, CARGO_NET_OFFLINE="true")
    ck.log("libFuzzer: building")
    b = subprocess.run(["cargo", "+nightly", "fuzz", "build", "compile"], cwd=root, env=env, stdout=subprocess.PIPE, stderr=subprocess.STDOUT)
    if b.returncode != 0:
        ck.inconclusive.append("cargo fuzz build failed: %s" % b.stdout.decode(errors="replace")[-800:])
        return
    ck.log("libFuzzer: running %ds on %d workers" % (seconds, common.NCPU))
    art = os.path.join(fdir, "artifacts", "compile")
    shutil.rmtree(art, ignore_errors=True)
    p = subprocess.run(["cargo", "+nightly", "fuzz", "run", "compile", "--", "-max_total_time=%d" % seconds, "-timeout=10", "-fork=%d" % common.NCPU,
                        "-max_len=4096", "-ignore_crashes=1", "-ignore_timeouts=1", "-ignore_ooms=1"], cwd=root, env=env,
                       stdout=subprocess.PIPE, stderr=subprocess.STDOUT, timeout=seconds + 900)
    tail = p.stdout.decode(errors="replace")[-1500:]
    import re
    execs = re.findall(r"#(\d+):? ", tail)
    ck.coverage["libfuzzer_output_tail"] = tail[-400:]
    ck.count("libfuzzer_seconds", seconds)
    found = []
    if os.path.isdir(art):
        for fn in sorted(os.listdir(art)):
            try:
                found.append(open(os.path.join(art, fn), "rb").read().decode("utf-8"))
            except UnicodeDecodeError:
                pass
    ck.count("libfuzzer_artifacts", len(found))
    if found:
        cases = [mk_case("fz%d" % i, [("compile", s)], {"gc": "never"}) for i, s in enumerate(found)]
        for case, res in zip(cases, common.run_batch("hook", cases, timeout=600)):
            bad = "abort" in res or any(st.get("problems") or st.get("res") == "panic" for st in res.get("steps", []))
            if bad:
                ck.violation("CompileFuzz(%s)" % ("abort" if "abort" in res else "problem"),
                             {"kind": "compile", "source": case["steps"][0][1], "problem": str(res)[:1500]})
