"""C14 - modules load once, keep their own globals, and cycles are reported.

Oracle A: generated import graphs over up to 6 modules served by the runner's module loader (DAGs,
diamonds, self-loops, longer cycles, missing, uncompilable and failing members), imported at top
level, inside functions, inside try blocks, under aliases and repeatedly; each module prints when
its body runs, defines same-named globals, reads built-ins, and exports functions that read and
write its own globals. The model keeps a module registry with load states. Multi-run histories on one
interpreter (imports that die uncaught half-way, an import suspended in a fiber and resumed by a later run, re-imports
by later runs) are checked against the model too, and - model-free - no module body may announce itself twice over a
whole history."""
from .. import common
from ..common import Check
from ..gen import feat_mod
from . import modelcheck


def run(tier):
    ck = Check("C14", tier)
    quick = tier == "quick"
    common.build(["hook", "dev"])
    common.replay_witnesses(ck, ["hook", "dev"])
    common.replay_known(ck)
    n = 2000 if quick else 60000 * common.TS
    rng = ck.rng.fork("graphs")
    plist = []
    for i in range(n):
        src, mods = feat_mod.module_program(rng.fork(str(i)))
        plist.append({"name": "graph/%d" % i, "steps": [("snip", src)], "mods": mods})
    r2 = ck.rng.fork("histories")
    for i in range(600 if quick else 20000 * common.TS):
        steps, mods = feat_mod.module_history(r2.fork(str(i)))
        plist.append({"name": "history/%d" % i, "steps": steps, "mods": mods})
    r3 = ck.rng.fork("aliases")
    for i in range(250 if quick else 8000 * common.TS):
        src, mods = feat_mod.native_alias_program(r3.fork(str(i)))
        plist.append({"name": "alias/%d" % i, "steps": [("snip", src)], "mods": mods})
    loads_seen = {}

    from ..gen import feat_fiber as _ff
    rxf = ck.rng.fork("xmodfib")
    for i in range(250 if quick else 8000 * common.TS):
        _src, _mods = _ff.xmod_fiber_program(rxf.fork(str(i)))
        plist.append({"name": "xmodfiber/%d" % i, "steps": [("snip", _src)], "mods": _mods})

    def seen(p, m, res):
        v = m["view"][0]
        bodies = [t for st in m["view"] for t in st.get("out", []) if t.startswith("body of ")]
        if len(set(bodies)) != len(bodies):
            ck.inconclusive.append("model ran a module body twice in %s" % p["name"])
        if bodies:
            ck.note_nontrivial(p["steps"][0][1] + repr(p["mods"]))
        ck.count("module_bodies_run", len(bodies))
        ck.count("import_errors_expected", sum(1 for t in v["out"] if t == "<class ImportError>"))
        real_bodies = [t for st in res["steps"] for t in st.get("out", []) if t.startswith("body of ")]
        if p["name"].startswith("history/"):
            ck.count("multi_run_histories")
            ck.count("runs_in_histories", len(res["steps"]))
        if len(set(real_bodies)) != len(real_bodies):
            ck.violation("ModuleBodyRanTwice", modelcheck.replay_of(p, "hook", "a module body ran more than once: %s" % real_bodies, m))
        if res.get("loads") is not None and m.get("loads") is not None and sorted(res["loads"]) != sorted(m["loads"]):
            ck.violation("LoaderRequests", modelcheck.replay_of(p, "hook", "loader was asked for %s, expected %s" % (res["loads"], m["loads"]), m))
        if len(ck.samples) < 2 and len(bodies) >= 2:
            ck.sample({"main": p["steps"][0][1][:700], "modules": [(a, b[:300]) for a, b in p["mods"][:3]], "expected_output": v["out"][:12]})

    rs = ck.rng.fork("selfimport")
    for i in range(200 if quick else 6000 * common.TS):
        _s, _m = feat_mod.self_import_program(rs.fork(str(i)))
        plist.append({"name": "selfimport/%d" % i, "steps": [("snip", _s)], "mods": _m})
    rd = ck.rng.fork("deepimport")
    for i in range(200 if quick else 6000 * common.TS):
        _s, _m = feat_mod.deep_import_program(rd.fork(str(i)))
        plist.append({"name": "deepimport/%d" % i, "steps": [("snip", _s)], "mods": _m})

    # interplay: this check's programs inside stacks of other features' constructs, and every profile's programs inside
    # this feature's constructs (vfpy/gen/feat_ctx.py); the model decides what they must print
    from ..gen import feat_ctx as _ctx
    for _p in _ctx.interplay(ck.rng.fork("interplay"), None, "C14", *((300, 300) if quick else (3000 * common.TS, 3000 * common.TS))):
        for _c in _p["ctx"]:
            ck.count("nesting_context_" + _c)
        plist.append(_p)
    # size ladders: this property's sized things at every size of a ladder straddling powers of two (vfpy/gen/feat_scale.py)
    from ..gen import feat_scale as _scale
    for _p in _scale.programs("C14", ck.rng.fork("scale"), quick):
        ck.count("scale_programs")
        ck.count("scale_template_" + _p["scale"][0])
        plist.append(_p)
    checked, discarded = modelcheck.check_programs(ck, plist, on_result=seen, extra_cfgs=("dev",))
    ck.coverage["programs_checked"] = checked
    ck.coverage["programs_discarded_by_model"] = discarded
    return ck.finish("import graphs over 2-6 generated modules (ok / missing / uncompilable / failing; forward, backward "
                     "and self edges; imports at top level, in functions, in try blocks, aliased, repeated) against the "
                     "model's registry, module globals of every value kind read / called through the module object, and multi-run histories (imports dying half-way, suspended in a fiber, re-imported later; no body may run twice), on the hooked and the dev build; non-trivial = distinct graph in which at least "
                     "one module body ran")


def replay(data):
    return modelcheck.replay_generic(data, "C14")
