"""C05 - expressions and control flow evaluate as the language defines.

Oracle A (history vs. reference model): random expression trees over every prefix and infix
operator, indexing, calls, ranges, assignment and compound assignment, with operands of every value
kind (so the error class and message are part of the expectation) and t(k, v) probes that make
evaluation order and evaluate-once visible; nested if / else-if / else, while, for, blocks, break,
continue, return with trace prints; an exhaustive small-scope index sweep (every sequence kind x every
integer / range index from below -len to above len, non-integral, infinite and ill-typed indexes, index stores);
failing statements of every form followed by probes of everything they might have touched (feat_residue)."""
from .. import common
from ..common import Check
from ..gen import feat_index, feat_order, feat_residue, progs
from . import modelcheck


def profiles(avoid):
    P = progs.Profile
    return [
        ("chains", P(w=dict(var=6, assign=3, print=2, chain=30, if_=1, while_=1, for_=0, block=1, fn=1, call=0, lam=0,
                            opassign=2, brk=0, cont=0, ret=0, setitem=0), probe=30, max_depth=2, stmts=(3, 10), avoid=avoid)),
        ("expr", P(w=dict(var=10, assign=8, print=14, if_=2, while_=1, for_=1, block=1, fn=2, call=3, lam=2, opassign=8,
                          brk=0, cont=0, ret=1, setitem=3), probe=35, expr_depth=4, max_depth=2, avoid=avoid)),
        ("expr-illtyped", P(w=dict(var=10, assign=8, print=14, if_=1, while_=0, for_=0, block=1, fn=1, call=2, lam=1,
                                   opassign=8, brk=0, cont=0, ret=0, setitem=3), probe=35, expr_depth=3, illtyped=12,
                            max_depth=1, stmts=(2, 8), uncaught=20, avoid=avoid)),
        ("ctrl", P(w=dict(var=8, assign=6, print=10, if_=10, while_=8, for_=8, block=4, fn=5, call=5, lam=2, opassign=4,
                          brk=6, cont=6, ret=6, setitem=2), probe=15, expr_depth=2, max_depth=4, stmts=(4, 12),
                   avoid=avoid)),
    ]


def run(tier):
    ck = Check("C05", tier)
    quick = tier == "quick"
    common.build(["hook", "dev"])
    common.replay_witnesses(ck, ["hook", "dev"])
    avoid = ck.findings.avoid_tags()
    n = {"chains": 1500, "expr": 1400, "expr-illtyped": 1200, "ctrl": 1200} if quick else \
        {"chains": 40000 * common.TS, "expr": 40000 * common.TS, "expr-illtyped": 30000 * common.TS, "ctrl": 30000 * common.TS}
    plist = []
    for name, prof in profiles(avoid):
        rng = ck.rng.fork(name)
        for i in range(n[name]):
            src, mods = progs.generate(rng.fork(str(i)), prof)
            plist.append({"name": "%s/%d" % (name, i), "steps": [("snip", src)], "mods": mods})

    for name, src in feat_index.programs(ck.rng.fork("index"), sample=6000 if quick else None):
        plist.append({"name": name, "steps": [("snip", src)], "mods": []})

    r4 = ck.rng.fork("residue")
    for i in range(400 if quick else 10000 * common.TS):
        plist.append({"name": "residue/%d" % i, "steps": [("snip", feat_residue.program(r4.fork(str(i))))], "mods": []})

    r5 = ck.rng.fork("order")
    for i in range(400 if quick else 10000 * common.TS):
        plist.append({"name": "order/%d" % i, "steps": [("snip", feat_order.program(r5.fork(str(i))))], "mods": []})

    def seen(p, m, res):
        v = m["view"][0]
        if len(v["out"]) >= 1:
            ck.note_nontrivial(p["steps"][0][1])
        ck.count("model_outcome_" + v["res"])
        if len(ck.samples) < 3 and len(v["out"]) > 2:
            ck.sample({"program": p["name"], "source": p["steps"][0][1][:600], "expected_output": v["out"][:8],
                       "expected_outcome": v["res"]})

    # interplay: this check's programs inside stacks of other features' constructs, and every profile's programs inside
    # this feature's constructs (vfpy/gen/feat_ctx.py); the model decides what they must print
    from ..gen import feat_ctx as _ctx
    for _p in _ctx.interplay(ck.rng.fork("interplay"), profiles(avoid), "C05", *((300, 300) if quick else (3000 * common.TS, 3000 * common.TS))):
        for _c in _p["ctx"]:
            ck.count("nesting_context_" + _c)
        plist.append(_p)
    # size ladders: this property's sized things at every size of a ladder straddling powers of two (vfpy/gen/feat_scale.py)
    from ..gen import feat_scale as _scale
    for _p in _scale.programs("C05", ck.rng.fork("scale"), quick):
        ck.count("scale_programs")
        ck.count("scale_template_" + _p["scale"][0])
        plist.append(_p)
    checked, discarded = modelcheck.check_programs(ck, plist, on_result=seen)
    ck.coverage["programs_checked"] = checked
    ck.coverage["programs_discarded_by_model"] = discarded
    return ck.finish("programs from the expr / expr-illtyped / ctrl profiles of the grammar-directed generator, each "
                     "compared with the reference model on printed texts, outcome, error class and messages; plus an exhaustive small-scope index sweep (13 sequences x every integer / range / odd index, index stores) and failing statements of 31 forms followed by probes of what they might have touched; "
                     "non-trivial = distinct program that printed at least one line")


def replay(data):
    return modelcheck.replay_generic(data, "C05")
