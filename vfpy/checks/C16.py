"""C16 - garbage is reclaimed: heap size is bounded by live data.

Oracle C on the `hookfast` build (release profile, unchecked fast paths, threshold-paced GC, no
override of the pacing): the runner replays yarel's allocation/sweep event stream (hook H4) against
its own shadow account and checks at EVERY allocation
  (i)   pacing: an allocation that starts with more than L bytes on the heap (L = 64 KiB before the
        first collection, 2 x survivors afterwards) must collect;
  (ii)  conservation: bytes_allocated == sum allocated - sum swept, swept bytes == sizes of the swept objects;
  (iii) threshold installed after a collection == 2 x surviving bytes;
and at the end of each case
  (iv)  running the loop 2n instead of n times leaves the same number of objects per kind
        (interned strings and compiled code excluded, as the property says);
  (v)   after the interpreter is dropped and a collection forced, the heap is empty (a leaked root
        pins its object and shows up here by kind).
"""
import struct

from .. import common
from ..common import Check, mk_case, snip
from ..gen import churn

EXCLUDED = {"ObjString", "Chunk", "ObjFunction"}


def f64_bits(x):
    return struct.unpack("<Q", struct.pack("<d", float(x)))[0]


def run(tier):
    ck = Check("C16", tier)
    quick = tier == "quick"
    common.build(["hookfast"])
    rng = ck.rng
    names = sorted(churn.BODIES)
    progs = []
    for n in names:                       # every kind alone
        progs.append(([n], rng.choice([1, 4, 16])))
    for _ in range(150 if quick else 2000):  # random mixes
        k = rng.range(2, 6)
        progs.append((rng.sample(names, k), rng.choice([1, 2, 8, 32, 128])))
    cases = []
    meta = {}
    for pi, (body, keep) in enumerate(progs):
        src = churn.program(body, keep)
        n = rng.choice([1500, 4000, 12000] if quick else [4000, 20000, 60000])
        # what happened earlier on the interpreter must not change the pacing: a third of the programs run after a
        # snippet that failed to compile, after a caught import of a module that does not compile, or after a snippet
        # that died with an uncaught error
        before = rng.choice([None, None, None, "compile_error", "broken_import", "uncaught"])
        if len(body) == 1 and body[0] in churn.VANISH:
            before = None
        steps = [snip(src), ("stats",)]
        mods = []
        if before == "compile_error":
            steps = [snip("var = ;\n")] + steps
        elif before == "uncaught":
            steps = [snip("fn boom(n) { if n == 0 { throw [n]; } return boom(n - 1); }\nboom(5);\n")] + steps
        elif before == "broken_import":
            src = src.replace("for i in 0..N {", "try { import \"c16broken\" as bb; } catch e { total = 0; }\nfor i in 0..N {", 1)
            steps = [snip(src), ("stats",)]
            mods = [("c16broken", "var x = ;\n")]
        # bodies with a list of kinds that must be gone after the loop (churn.VANISH) also run with no iteration at all
        mults = (0, 1, 2) if len(body) == 1 and body[0] in churn.VANISH and before is None else (1, 2)
        for mult in mults:
            cid = "c%d:%d" % (pi, mult)
            meta[cid] = (body, keep, n * mult, src)
            cases.append(mk_case(cid, steps, {"gc": "default", "trace": 1, "dropcheck": 1}, mods,
                                 globals_=[("N", f64_bits(n * mult))]))
    ck.log("%d programs x {n, 2n} iterations" % len(progs))
    results = common.run_batch("hookfast", cases, timeout=1500 if quick else 6000, case_timeout=240 if quick else 900)
    by = {}
    for case, res in zip(cases, results):
        cid = case["id"]
        body, keep, n, src = meta[cid]
        ck.evaluations += 1
        rp = {"body": body, "keep": keep, "N": n, "source": src}
        if "abort" in res and res["abort"].get("why") == "timeout":
            # a watchdog is no verdict on this property (false alarm of the thorough tier on a machine with a load of 100:
            # a 240 000-iteration program exceeded its allowance even in its isolated re-run); whether programs
            # terminate is C02's matter
            ck.inconclusive.append("churn program %s (N=%d) hit the watchdog" % (body, n))
            continue
        if "abort" in res or common.panics_of(res):
            ck.violation("ChurnRunDied", dict(rp, what=str(res.get("abort") or common.panics_of(res))[:2000]))
            continue
        st = [x for x in res["steps"] if x.get("k") == "snip"][-1]
        if st.get("res") != "ok":
            ck.inconclusive.append("churn program failed to run: %s %s" % (body, st.get("msgs")))
            continue
        heap = res.get("heap", {})
        ck.count("allocation_events", heap.get("allocs", 0))
        ck.count("sweep_events", heap.get("sweeps", 0))
        ck.coverage["max_heap_bytes"] = max(ck.coverage.get("max_heap_bytes", 0), heap.get("max_heap", 0))
        ck.coverage["max_bytes_over_limit_without_collection"] = max(
            ck.coverage.get("max_bytes_over_limit_without_collection", -1 << 60), heap.get("max_over_limit", 0))
        if heap.get("sweeps", 0) >= 2:
            ck.note_nontrivial(src + str(n))
        for problem in heap.get("problems", []):
            ck.violation("Heap(%s)" % problem.split(":")[0], dict(rp, what=problem))
        after = res.get("after_drop", {})
        if after.get("objects", 0) != 0:
            kinds = sorted(after.get("by_type", {}))
            ck.violation("LeakedAfterDrop(%s)" % ",".join(kinds),
                         dict(rp, what="objects left after the interpreter was dropped: %s" % after.get("by_type")))
        stats = res["steps"][1]
        by[cid] = {k: v[0] for k, v in stats.get("by_type", {}).items() if k not in EXCLUDED}
        if len(ck.samples) < 4:
            ck.sample({"body": body, "keep": keep, "N": n, "allocs": heap.get("allocs"), "sweeps": heap.get("sweeps"),
                       "max_heap": heap.get("max_heap"), "live_after": by[cid]})
    for pi in range(len(progs)):
        a, b = by.get("c%d:1" % pi), by.get("c%d:2" % pi)
        if a is None or b is None:
            continue
        z = by.get("c%d:0" % pi)
        if z is not None:
            body, keep, n, src = meta["c%d:1" % pi]
            ck.count("census_against_no_iterations")
            left = {}
            for spec in churn.VANISH[body[0]]:
                k, _, plus = spec.partition("+")
                allowed = min(keep, n) if plus == "keep" else 0
                if a.get(k, 0) != z.get(k, 0) + allowed:
                    left[k] = (z.get(k, 0), a.get(k, 0), "expected %d more than with no iterations" % allowed)
            if left:
                ck.violation("UnreachableRetained(%s)" % ",".join(sorted(left)),
                             {"body": body, "keep": keep, "N": n, "source": src,
                              "what": "objects of kinds the program cannot reach after the loop (none vs n iterations): %s" % left})
        ck.count("iteration_doubling_pairs")
        # the range cache (8 entries, evicted by insertion time stamps) makes the number of live
        # ObjRange objects vary by up to the cache size from run to run: that is bounded, not growth
        diff = {k: (a.get(k, 0), b.get(k, 0)) for k in set(a) | set(b)
                if a.get(k, 0) != b.get(k, 0) and not (k == "ObjRange" and abs(a.get(k, 0) - b.get(k, 0)) <= 8)}
        if diff:
            body, keep, n, src = meta["c%d:1" % pi]
            ck.violation("GrowsWithIterations(%s)" % ",".join(sorted(diff)),
                         {"body": body, "keep": keep, "N": n, "source": src,
                          "what": "objects left (n vs 2n iterations): %s" % diff})
    return ck.finish("loop programs over %d allocation kinds (each alone and in random mixes) with a bounded ring of "
                     "kept objects, run n and 2n times under the stock threshold pacing; every allocation and sweep "
                     "event checked against the shadow account; non-trivial = distinct (program, n) with >= 2 collections"
                     % len(names))


def replay(data):
    common.build(["hookfast"])
    sig = data.get("signature", "")
    if sig.startswith("GrowsWithIterations") or sig.startswith("UnreachableRetained"):
        # census replays: the same program with no, n and 2n iterations
        out = {}
        for mult in (0, 1, 2):
            case = mk_case("replay%d" % mult, [snip(data["source"]), ("stats",)], {"gc": "default", "trace": 1, "dropcheck": 1},
                           globals_=[("N", f64_bits(data["N"] * mult))])
            res = common.run_batch("hookfast", [case], shards=1, timeout=900)[0]
            out[mult] = {k: v[0] for k, v in res["steps"][1].get("by_type", {}).items() if k not in EXCLUDED} if "steps" in res else None
            print("N x %d:" % mult, out[mult])
        bad = False
        if None in out.values():
            bad = True
        elif sig.startswith("GrowsWithIterations"):
            bad = any(out[1].get(k, 0) != out[2].get(k, 0) and not (k == "ObjRange" and abs(out[1].get(k, 0) - out[2].get(k, 0)) <= 8)
                      for k in set(out[1]) | set(out[2]))
        else:
            body = data.get("body") or []
            for spec in churn.VANISH.get(body[0] if body else "", []):
                k, _, plus = spec.partition("+")
                allowed = min(data.get("keep", 0), data["N"]) if plus == "keep" else 0
                bad = bad or out[1].get(k, 0) != out[0].get(k, 0) + allowed
        if bad:
            print("VIOLATION property=C16 replay=<given>")
            return 1
        return 0
    case = mk_case("replay", [snip(data["source"]), ("stats",)], {"gc": "default", "trace": 1, "dropcheck": 1},
                   globals_=[("N", f64_bits(data["N"]))])
    res = common.run_batch("hookfast", [case], shards=1, timeout=600)[0]
    print(res)
    if res.get("heap", {}).get("problems") or res.get("after_drop", {}).get("objects"):
        print("VIOLATION property=C16 replay=<given>")
        return 1
    return 0
