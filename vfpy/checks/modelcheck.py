"""Oracle A: history vs. model. Runs programs (one or more snippets on one interpreter, optional
module table) on the real library and on the reference model, and compares per step the printed
texts, the outcome, the error class and the messages (trace lines included)."""
import json
import multiprocessing
import os
import re
import sys

from .. import common
from ..common import mk_case, norm


HOST_CLASSES_PRELUDE = """
#[constructor(mk__)] class HAnimal { fn speak(self) { return "..."; } fn legs(self) { return 4; } fn kind(self) { return "animal"; } }
#[derive(HAnimal), constructor(mk__)] class HBird { fn speak(self) { return "tweet"; } fn legs(self) { return 2; } }
#[derive(HBird), constructor(mk__)] class HParrot { fn speak(self) { return "hello"; } }
var hgeneric = HAnimal.mk__();
var htweety = HBird.mk__();
var hpolly = HParrot.mk__();
"""


def _model_worker(batch):
    sys.setrecursionlimit(20000)
    from ..model.interp import Interp
    out = []
    for prog in batch:
        mods = dict(prog.get("mods") or [])
        try:
            ip = Interp(loader=lambda p: mods.get(p), budget=prog.get("budget", 300000),
                        host_natives=bool(prog.get("natives")))
            for name, value in prog.get("globals_f") or []:
                ip.main.attrs[name] = value
            if prog.get("hostclasses"):
                # the hierarchy the runner declares through the host API (harness/src/main.rs, define_host_classes)
                ip.out = []
                r0 = ip.interpret(HOST_CLASSES_PRELUDE)
                if r0[0] != "ok":
                    raise RuntimeError("host class prelude failed in the model: %r" % (r0,))
                for k in ("mk__a", "mk__b", "mk__p"):
                    ip.main.attrs.pop(k, None)
            view = []
            kept = []
            for step in prog["steps"]:
                if step[0] == "keep":
                    kept.append(step[1])
                    view.append({"k": "keep"})
                    continue
                if step[0] == "native":
                    ip.host_define_native(step[1], step[2])
                    view.append({"k": "native"})
                    continue
                if step[0] == "getg":
                    view.append({"k": "getg", "text": ip.host_global_text(step[1], step[2])})
                    continue
                if step[0] == "exec":
                    step = ("snip", kept[step[1]])
                if step[0] == "reset":
                    ip.reset()
                    for name, value in prog.get("globals_f") or []:
                        pass
                    view.append({"k": "reset"})
                    continue
                ip.out = []
                r = ip.interpret(step[1])
                e = {"k": "snip", "out": list(ip.out), "res": r[0]}
                if r[0] == "error":
                    e["kind"] = r[1]
                    e["msgs"] = r[2]
                elif r[0] == "compile_error":
                    e["msg"] = r[1]
                    e["line"] = r[2]
                elif r[0] in ("unsupported", "budget"):
                    e["why"] = r[1] if len(r) > 1 else ""
                view.append(e)
            out.append({"view": view, "steps_used": ip.steps, "loads": ip.loads})
            ip.shutdown()
        except Exception as ex:  # a model crash is a harness problem, never a verdict
            out.append({"crash": "%s: %s" % (type(ex).__name__, ex)})
    return out


def run_models(progs, chunk=40):
    batches = [progs[i:i + chunk] for i in range(0, len(progs), chunk)]
    if not batches:
        return []
    with multiprocessing.Pool(min(common.NCPU, len(batches))) as pool:
        res = pool.map(_model_worker, batches)
    return [x for b in res for x in b]


def normalise_ms(texts):
    """sort the lines between <ms> and </ms> markers (enumerations whose order is unspecified)"""
    out = []
    acc = None
    for t in texts:
        if t == "<ms>":
            acc = []
        elif t == "</ms>" and acc is not None:
            out.append("<ms>")
            out.extend(sorted(acc))
            out.append("</ms>")
            acc = None
        elif acc is not None:
            acc.append(t)
        else:
            out.append(t)
    if acc is not None:
        out.append("<ms>")
        out.extend(sorted(acc))
    return out


REFUSAL_FAMILIES = re.compile(r"limit|cerr|lex/|invalid|mapsize|locals/|nestedrecv|decl|scale|token|compile")


COMPILE_RE = re.compile(r'^\[module "([^"]*)", line (\d+)\] Error(?: at end| at \'.*\')?: (.*)$', re.S)


def compare_step(model, real):
    """None if they agree, else a short description"""
    if model["k"] == "reset":
        return None if real.get("k") == "reset" and real.get("res") == "ok" else "reset failed: %s" % real
    if real.get("res") == "panic":
        return "host panic: %s @ %s" % (real.get("panic_msg"), real.get("panic_loc"))
    if model["k"] in ("keep", "native"):
        return None if real.get("k") == model["k"] and real.get("res") == "ok" else "host step %s failed: %s" % (model["k"], real)
    if model["k"] == "getg":
        if real.get("k") != "getg" or norm(real.get("text", "")) != norm(model["text"]):
            return "host read of a global: expected %r got %r" % (model["text"], real.get("text"))
        return None
    mo = normalise_ms([norm(t) for t in model["out"]])
    # the context of an ImportError for a module that does not compile quotes the compiler's
    # messages after a fixed head line; the model only predicts the head
    ro = normalise_ms([norm(t) if not t.startswith("Error compiling module:\n    [module") else "Error compiling module:"
                       for t in real.get("out", [])])
    if mo != ro:
        for i, (a, b) in enumerate(zip(mo + ["<end>"], ro + ["<end>"])):
            if a != b:
                return "printed text %d differs: expected %r got %r" % (i, a, b)
        return "printed output differs in length: expected %d texts got %d" % (len(mo), len(ro))
    mres = model["res"]
    if mres == "ok":
        if real.get("res") != "ok":
            return "expected success, got %s %s" % (real.get("kind"), real.get("msgs"))
        return None
    if mres == "compile_error":
        if real.get("res") != "err" or real.get("kind") != "CompileError":
            return "expected a compile error, got %s %s %s" % (real.get("res"), real.get("kind"), real.get("msgs"))
        if model.get("msg") is not None and real.get("msgs"):
            m = COMPILE_RE.match(real["msgs"][0])
            if m is None:
                return "malformed compile error %r" % real["msgs"][0]
            if m.group(3) != model["msg"]:
                return "compile error text: expected %r got %r" % (model["msg"], real["msgs"][0])
            if model.get("line") is not None and int(m.group(2)) != model["line"]:
                return "compile error line: expected %d got %r" % (model["line"], real["msgs"][0])
        return None
    if mres == "error":
        if real.get("res") != "err":
            return "expected %s %s, got success" % (model["kind"], model["msgs"][:1])
        if real.get("kind") != model["kind"]:
            return "error kind: expected %s got %s (%s)" % (model["kind"], real.get("kind"), real.get("msgs"))
        mm = [norm(m) for m in model["msgs"]]
        rm = [norm(m) for m in real.get("msgs", [])]
        if mm and mm[0] == "Unhandled ImportError: Error compiling module:":
            rm = [m for m in rm if not m.startswith("    [module")]
        if mm != rm:
            return "error messages: expected %r got %r" % (mm, rm)
        return None
    return "model result %s" % mres


def check_programs(ck, progs, cfg="hook", opts=None, timeout=None, sig_prefix="ModelMismatch", on_result=None,
                   extra_cfgs=(), event_filter=None):
    """progs: list of dicts {name, steps:[('snip',src)|('reset',)], mods, natives, globals (bits), globals_f}.
    Violations are reported with the whole program as replay. Returns (checked, discarded)."""
    models = run_models(progs)
    cases = []
    keep = []
    discarded = 0
    for i, (p, m) in enumerate(zip(progs, models)):
        if "crash" in m:
            ck.inconclusive.append("model crashed on %s: %s" % (p["name"], m["crash"]))
            continue
        if any(s.get("res") in ("unsupported", "budget") for s in m["view"]):
            discarded += 1
            ck.count("discarded_" + next(s["res"] for s in m["view"] if s.get("res") in ("unsupported", "budget")))
            continue
        o = dict(opts or {"gc": "always", "quarantine": 1})
        if p.get("natives"):
            o["natives"] = 1
        if p.get("hostclasses"):
            o["hostclasses"] = 1
        cases.append(mk_case("m%d" % i, [tuple(s) for s in p["steps"]], o, p.get("mods"), p.get("globals")))
        keep.append((p, m))
        # what the model says happens, per snippet: a program whose every snippet is refused by the compiler exercises
        # nothing of what its generator meant to exercise, and model and implementation agree on it all the same
        snips = [s for s in m["view"] if s.get("k") == "snip"]
        for s in snips:
            ck.count("model_snippets_" + {"ok": "ok", "error": "uncaught_error", "compile_error": "compile_error"}.get(s["res"], "other"))
        if snips and all(s["res"] == "compile_error" for s in snips):
            ck.count("programs_refused_outright")
            fam = re.sub(r"[-_]?\d+", "", p["name"])[:40] or "?"
            by = ck.coverage.setdefault("refused_outright_by_family", {})
            by[fam] = by.get(fam, 0) + 1
        fam_all = re.sub(r"[-_]?\d+", "", p["name"])[:40] or "?"
        tot = ck.__dict__.setdefault("_family_totals", {})
        tot[fam_all] = tot.get(fam_all, 0) + 1
    # a family of generated programs of which a sizeable part is refused by the compiler - in the model and hence, when
    # the two agree, in the implementation - is a generator that writes something the language does not have: its
    # programs pass without exercising anything (found in feat_order: `v[0] += x` does not exist, 27 % of that family
    # never ran). Families whose purpose is a refusal (limits, lexing, compile-error reports) are exempt.
    for fam, n_ref in (ck.coverage.get("refused_outright_by_family") or {}).items():
        n_all = ck.__dict__.get("_family_totals", {}).get(fam, 0)
        if n_all >= 50 and n_ref > 0.15 * n_all and not REFUSAL_FAMILIES.search(fam):
            msg = "%d of %d programs of family %r do not compile (in the model): the generator writes something the language does not have" % (n_ref, n_all, fam)
            if msg not in ck.inconclusive:
                ck.inconclusive.append(msg)
    tmo = timeout or common.batch_timeout(ck.tier, len(cases) / 8)
    for c in (cfg,) + tuple(extra_cfgs):
        results = common.run_batch(c, cases, timeout=tmo)
        for (p, m), case, res in zip(keep, cases, results):
            ck.evaluations += 1
            if "abort" in res:
                ck.violation("%s(abort:%s)" % (sig_prefix, res["abort"]["why"]), replay_of(p, c, "runner %s" % res["abort"], m))
                continue
            if res.get("harness_panic") or res.get("vm_new") == "panic":
                ck.violation("%s(panic)" % sig_prefix, replay_of(p, c, "panic %s @ %s" % (res.get("panic_msg"), res.get("panic_loc")), m))
                continue
            for ev in res.get("events", []):
                if event_filter is not None and not event_filter(ev):
                    continue
                ck.violation(ev["sig"], replay_of(p, c, "%s %s" % (ev["kind"], ev["detail"]), m))
            problem = None
            for si, (ms, rs) in enumerate(zip(m["view"], res["steps"])):
                problem = compare_step(ms, rs)
                if problem:
                    problem = "step %d: %s" % (si, problem)
                    break
            if problem is None and len(res["steps"]) != len(m["view"]):
                problem = "ran %d steps, expected %d" % (len(res["steps"]), len(m["view"]))
            if problem and _address_dependent(c, case, res):
                # the program's output depends on the addresses it printed (it sliced, measured or rewrote a text that
                # contains one): two runs of the real interpreter disagree with each other, so there is nothing to compare
                ck.count("discarded_address_dependent")
                problem = None
            if problem:
                ck.violation("%s(%s)" % (sig_prefix, classify(problem)), replay_of(p, c, problem, m))
            if on_result is not None:
                on_result(p, m, res)
    return len(keep), discarded


def _raw_view(res):
    # addresses masked: what is compared is whether the two runs still differ once the addresses themselves are gone
    return [(st.get("res"), [norm(t) for t in st.get("out", [])], [norm(t) for t in st.get("msgs", [])]) for st in res.get("steps", [])]


def _address_dependent(cfg, case, res):
    text = json.dumps([(st.get("out"), st.get("msgs")) for st in res.get("steps", [])])
    if "0x" not in text and "@ " not in text:
        return False
    again = common.run_batch(cfg, [case], shards=1, timeout=120)[0]
    if "abort" in again:
        return False
    return _raw_view(again) != _raw_view(res)


def classify(problem):
    p = re.sub(r"step \d+: ", "", problem)
    for key in ("host panic", "printed text", "printed output differs in length", "expected success",
                "expected a compile error", "compile error text", "compile error line", "error kind",
                "error messages", "expected "):
        if p.startswith(key):
            return key.strip().replace(" ", "-")
    return "other"


def replay_of(p, cfg, what, model):
    return {"program": p["name"], "steps": p["steps"], "modules": p.get("mods") or [], "natives": bool(p.get("natives")),
            "globals": p.get("globals") or [], "config": cfg, "what": what,
            "model": model.get("view") if isinstance(model, dict) else None,
            "source": "\n# ---- next snippet ----\n".join(s[1] for s in p["steps"] if s[0] == "snip")}


def replay_generic(data, prop):
    """re-run a replay file of a model-based check: model vs. real"""
    prog = {"name": data.get("program", "replay"), "steps": [tuple(s) for s in data["steps"]],
            "mods": [tuple(m) for m in data.get("modules", [])], "natives": data.get("natives"),
            "globals": [tuple(g) for g in data.get("globals", [])]}
    cfg = data.get("config", "hook")
    common.build([cfg])
    model = run_models([prog])[0]
    o = {"gc": "always", "quarantine": 1}
    if prog["natives"]:
        o["natives"] = 1
    res = common.run_batch(cfg, [mk_case("replay", prog["steps"], o, prog["mods"], prog["globals"])], shards=1, timeout=300)[0]
    print("model:", json.dumps(model)[:3000])
    print("real: ", json.dumps(res)[:3000])
    bad = "abort" in res or "view" not in model
    if not bad:
        for ms, rs in zip(model["view"], res["steps"]):
            pr = compare_step(ms, rs)
            if pr:
                print("DIFF:", pr)
                bad = True
                break
    if bad:
        print("VIOLATION property=%s replay=<given>" % prop)
        return 1
    return 0
