"""C04 - accepted programs compile to code the interpreter can run blindly.

Runtime monitoring reaches executed paths only. Three monitors:
  DM   the per-instruction dispatch monitor (hook H5) checks on EVERY executed instruction: ip inside
       the active chunk and on an instruction boundary (own operand-length table), operands inside the
       code, constant index in the pool and of the needed kind, local slot below the current height,
       capture index below the closure's captures, capture descriptors, operand counts <= height, jump
       targets inside the code on a boundary, and height consistency (the first height seen at
       (chunk, offset) must be seen on every later arrival);
  SC   a linear structural decode of every compiled chunk (runner: chunkcheck);
  A    the reference model on the same runs (a wrapped operand count or jump shows up as wrong output).
Workloads: every generator profile (both arms of branches, loops 0/1/2+ times, break/continue/return/
throw) and the `limits` family straddling each encoding limit; coverage = executed / emitted
instructions, reported and enforced against a floor."""
from .. import common
from ..common import Check, mk_case, snip
from ..gen import limits, progs, profiles as allp
from . import modelcheck

COVERAGE_FLOOR = 0.60


def run(tier):
    ck = Check("C04", tier)
    quick = tier == "quick"
    common.build(["hook"])
    common.replay_witnesses(ck, ["hook"])
    avoid = ck.findings.avoid_tags()
    opts = {"gc": "never", "dispatch": 1}
    totals = {"dispatched": 0, "instructions": 0, "distinct_executed": 0, "chunks": 0, "handler_targets": 0}

    def seen(p, m, res):
        d = res.get("dispatch")
        if d:
            for k in totals:
                totals[k] += d.get(k, 0)
        v = m["view"][0]
        if v["res"] != "compile_error" and d and d.get("dispatched", 0) > 200:
            ck.note_nontrivial(p["steps"][0][1][:4000])

    # ---- every profile under the dispatch monitor
    plist = []
    rng = ck.rng.fork("profiles")
    profs = allp.all_profiles(avoid)
    n = 1500 if quick else 50000 * common.TS
    for i in range(n):
        name, prof = profs[i % len(profs)]
        src, mods = progs.generate(rng.fork(str(i)), prof)
        if i % 3 == 2:
            from ..gen import feat_ctx
            src, mods, ctx = feat_ctx.nest(src, mods, rng.fork("nest/%d" % i))
            name = "%s[%s]" % (name, ">".join(ctx))
            ck.count("nested_programs")
        plist.append({"name": "%s/%d" % (name, i), "steps": [("snip", src)], "mods": mods})
    # size ladders: this property's sized things at every size of a ladder straddling powers of two (vfpy/gen/feat_scale.py)
    from ..gen import feat_scale as _scale
    for _p in _scale.programs("C04", ck.rng.fork("scale"), quick):
        ck.count("scale_programs")
        ck.count("scale_template_" + _p["scale"][0])
        plist.append(_p)
    checked, discarded = modelcheck.check_programs(ck, plist, opts=opts, on_result=seen)
    ck.coverage["profile_programs_checked"] = checked
    # ---- the limits family
    prof_totals = dict(totals)
    deltas = [-70, -60, -50, -40, -30, -24, -20, -16, -14, -12, -10, -9, -8, -7, -6, -5, -4, -3, -2, -1, 0, 1, 2, 4] if quick else list(range(-72, 8))
    fam = limits.jump_family(deltas) + limits.count_family() + limits.decl_limit_family() + limits.compound_after_constants() + limits.handler_sum_family()
    lp = [{"name": "limit:" + name, "steps": [("snip", src)], "mods": [("limmod", "var v = 5;\n")], "budget": 3000000} for name, src in fam]
    models = modelcheck.run_models(lp, chunk=4)
    cases = [mk_case("l%d" % i, p["steps"], opts, p["mods"]) for i, p in enumerate(lp)]
    results = common.run_batch("hook", cases, timeout=common.batch_timeout(tier, len(cases), per_case=2))
    accepted = {}
    rejected = {}
    for p, m, res in zip(lp, models, results):
        ck.evaluations += 1
        construct = p["name"].split("/")[0]
        if "abort" in res or common.panics_of(res):
            ck.violation("LimitProgramDied(%s)" % construct, {"program": p["name"], "source_head": p["steps"][0][1][:300],
                                                               "what": str(res.get("abort") or common.panics_of(res))[:1500],
                                                               "regen": p["name"]})
            continue
        st = res["steps"][0]
        for ev in res.get("events", []):
            ck.violation(ev["sig"], {"program": p["name"], "source_head": p["steps"][0][1][:300], "what": ev["detail"], "regen": p["name"]})
        if st.get("res") == "err" and st.get("kind") == "CompileError":
            msgs = st.get("msgs", [])
            if msgs and any(msgs[0].endswith(": " + lm) for lm in limits.LIMIT_MESSAGES):
                rejected[construct] = rejected.get(construct, 0) + 1
                ck.count("limit_cases_rejected")
                # a rejection must be warranted: the model rejects too, or it is a pure encoding limit
                mv = m.get("view", [{}])[0]
                if mv.get("res") == "compile_error" and mv.get("msg") and not msgs[0].endswith(": " + mv["msg"]):
                    ck.violation("LimitMessage(%s)" % construct, {"program": p["name"], "what": "expected %r got %r" % (mv["msg"], msgs[0]), "regen": p["name"]})
                continue
        if "view" not in m or m["view"][0].get("res") in ("unsupported", "budget"):
            ck.inconclusive.append("model could not run %s: %s" % (p["name"], m.get("crash") or m["view"][0].get("why")))
            continue
        problem = modelcheck.compare_step(m["view"][0], st)
        if problem:
            ck.violation("LimitMismatch(%s)" % construct, {"program": p["name"], "source_head": p["steps"][0][1][:300], "what": problem, "regen": p["name"]})
        else:
            accepted[construct] = accepted.get(construct, 0) + 1
            ck.count("limit_cases_accepted")
            ck.note_nontrivial(p["name"])
        seen(p, m, res)
    ck.coverage["limit_constructs_accepted"] = dict(sorted(accepted.items()))
    ck.coverage["limit_constructs_rejected"] = dict(sorted(rejected.items()))
    for construct in sorted(set(accepted) | set(rejected)):
        if construct in ("limit:ctor-empty", "limit:last-local", "limit:compound-consts", "limit:handler-sum"):
            continue
        if construct not in accepted or construct not in rejected:
            ck.inconclusive.append("limit family %s never straddled its limit (accepted %d, rejected %d)" % (
                construct, accepted.get(construct, 0), rejected.get(construct, 0)))
    ck.coverage.update({"instructions_dispatched": totals["dispatched"], "instructions_emitted_in_executed_chunks": totals["instructions"],
                        "distinct_instructions_executed": totals["distinct_executed"], "handler_entry_points": totals["handler_targets"]})
    cov = prof_totals["distinct_executed"] / max(1, prof_totals["instructions"])
    ck.coverage["instruction_coverage_of_profile_programs"] = round(cov, 4)
    if cov < COVERAGE_FLOOR:
        ck.inconclusive.append("instruction coverage %.2f below the floor %.2f" % (cov, COVERAGE_FLOOR))
    ck.sample({"limit_families": sorted(set(accepted) | set(rejected)), "coverage": round(cov, 4)})
    return ck.finish("every generator profile and the limits family (jump distances 65536%+d..%+d bytes for 11 jump-emitting "
                     "constructs; 254..257 operands for 11 counted constructs incl. every arrangement of literal text around interpolation parts; 65530..65540 constants) run under the dispatch "
                     "monitor and compared with the model; non-trivial = distinct program that executed > 200 instructions "
                     "under the monitor, or an accepted limit case" % (deltas[0], deltas[-1]))


def replay(data):
    if "regen" in data:
        common.build(["hook"])
        name = data["regen"].split(":", 1)[1]
        fam = dict(limits.jump_family(list(range(-72, 8))) + limits.count_family())
        src = fam.get(name)
        if src is None:
            print("unknown limit case", name)
            return 2
        res = common.run_batch("hook", [mk_case("replay", [snip(src)], {"gc": "never", "dispatch": 1})], shards=1, timeout=600)[0]
        print(str(res)[:3000])
        return 1
    return modelcheck.replay_generic(data, "C04")
