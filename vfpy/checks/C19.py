"""C19 - numbers survive text: printing and parsing round-trip exactly.

(a) doubles injected as host globals (random bit patterns plus boundaries: +-0, subnormals, powers
    of 2 and 10, 2^53 and 2^63 neighbours, max/min, +-inf, NaN): the program prints x, String.from(x),
    "${x}" and checks String.from(x).to_num() == x itself; the driver checks independently of the
    model that CPython's correctly rounded float(text) returns the original bits, that integral
    values print without '.' or 'e', and compares the text with the model's rendering;
(b) literals: every decimal literal d{1,4}, d{1,2}.d{1,2} exhaustively (longer ones sampled, including 12-24
    significant digits with the point at every position and shortest texts of random doubles) is
    compared in-program with the nearest double injected by the host;
(c) lexing: digit strings followed by .len / ..3 / .5 / ". 5" / "." / ".." / end / .x.y / ..-1 must
    parse as the model says (method access on a number, range, fraction, or the specific compile error)."""
import math
import struct

from .. import common
from ..common import Check
from . import modelcheck


def bits(x):
    return struct.unpack("<Q", struct.pack("<d", x))[0]


def from_bits(b):
    return struct.unpack("<d", struct.pack("<Q", b & ((1 << 64) - 1)))[0]


def boundary_doubles():
    out = [0.0, -0.0, 5e-324, -5e-324, 2.2250738585072014e-308, 2.225073858507201e-308, 1.7976931348623157e308,
           -1.7976931348623157e308, math.inf, -math.inf, math.nan, 0.1, 0.2, 0.30000000000000004, 1 / 3, 2 / 3, 1e21, 1e22, 1e-7, 1e-6,
           123456789012345680000.0, 0.000001, 4.35, 0.5, 1.5, 2.5, 1e15, 1e16, 1e17, 9.5e15, 5e-324 * 3]
    for e in range(-30, 70, 3):
        out += [2.0 ** e, -(2.0 ** e), 2.0 ** e + 1, 2.0 ** e - 1]
    for e in range(-25, 25):
        out += [10.0 ** e, 10.0 ** e * 3, -(10.0 ** e)]
    for k in (2 ** 53, 2 ** 63, 2 ** 31, 2 ** 32, 2 ** 64):
        for d in (-3, -2, -1, 0, 1, 2, 3):
            out.append(float(k + d))
            out.append(float(-(k + d)))
        out.append(math.nextafter(float(k), math.inf))
        out.append(math.nextafter(float(k), -math.inf))
    return out


def run(tier):
    ck = Check("C19", tier)
    quick = tier == "quick"
    # the unhooked builds run the same programs too: there the collector really frees and the allocator really reuses
    # addresses, across the interpreters that one runner process creates one after another (a conversion cache keyed
    # by a string's address, say, is invisible while nothing is ever freed)
    common.build(["hook", "dev", "rel"])
    common.replay_witnesses(ck, ["hook"])
    rng = ck.rng
    plist = []
    # ---- (a)
    doubles = boundary_doubles()
    nrand = 12000 if quick else 400000 * common.TS
    for _ in range(nrand):
        c = rng.below(10)
        if c < 6:
            doubles.append(from_bits(rng.next()))
        elif c < 8:
            doubles.append(float(rng.below(1 << rng.range(1, 63))) * rng.choice([1, -1]))
        else:
            doubles.append(rng.below(10 ** rng.range(1, 17)) / 10 ** rng.range(0, 17))
    per = 150
    for i in range(0, len(doubles), per):
        chunk = doubles[i:i + per]
        lines = []
        for k in range(len(chunk)):
            g = "g%d" % k
            lines.append("print(%s); print(String.from(%s)); print(\"${%s}\");" % (g, g, g))
            lines.append("{ var back = String.from(%s).to_num(); print(back == %s || (%s != %s && back != back)); print(1 / back == 1 / %s || %s != %s); }"
                         % (g, g, g, g, g, g, g))
        plist.append({"name": "doubles/%d" % (i // per), "kind": "a", "values": chunk,
                      "steps": [("snip", "\n".join(lines) + "\n")], "mods": [],
                      "globals": [("g%d" % k, bits(v)) for k, v in enumerate(chunk)],
                      "globals_f": [("g%d" % k, v) for k, v in enumerate(chunk)], "budget": 2000000})
    # ---- (b)
    lits = [str(n) for n in range(0, 10000)] if not quick else [str(n) for n in range(0, 1000)] + [str(rng.below(10000)) for _ in range(500)]
    for a in range(0, 100, 1 if not quick else 7):
        for b in range(0, 100, 1 if not quick else 3):
            lits.append("%d.%d" % (a, b))
            lits.append("%d.%02d" % (a, b))
    for _ in range(3000 if quick else 60000 * common.TS):
        ip = str(rng.below(10 ** rng.range(1, 6)))
        fp = "".join(str(rng.below(10)) for _ in range(rng.range(1, 6)))
        lits.append(ip + "." + fp)
    # long literals: 12-24 significant digits with the decimal point at every position (the value must be the
    # correctly rounded double, not a product of two roundings), and the shortest text of random doubles read back
    for _ in range(4000 if quick else 100000 * common.TS):
        nd = rng.range(12, 24)
        digs = str(rng.range(1, 9)) + "".join(str(rng.below(10)) for _ in range(nd - 1))
        cut = rng.range(1, nd)
        lits.append(digs[:cut] + ("." + digs[cut:] if cut < nd else ""))
        if rng.chance(30):
            lits.append("0." + "0" * rng.range(0, 4) + digs)
    for _ in range(1500 if quick else 40000 * common.TS):
        x = rng.below(10 ** rng.range(14, 17)) / 10 ** rng.range(1, 16)
        t = repr(x)
        if "e" not in t and "inf" not in t:
            lits.append(t)
            lits.append(t[:-1] + str((int(t[-1]) + rng.range(1, 9)) % 10))
    for extra in ["9007199254740993", "9007199254740992", "0.1", "0.30000000000000004", "123456789012345678901234567890", "00012", "007.500",
                  "179769313486231570000000000000000000000000000000000000000000000000000000000000000000000000000000000000000000000000000000000000000000000000000000000000000000000000000000000000000000000000000000000000000000000000000000000000000000000000000000000000000000000000000000000000000000000000000000000000000000000000000",
                  "0.000000000000000000000000000000000000000000000000000000000000000000000000000000000000000000001"]:
        lits.append(extra)
    for i in range(0, len(lits), 250):
        chunk = lits[i:i + 250]
        vals = [float(t) for t in chunk]
        lines = ["print(%s == h%d);" % (t, k) for k, t in enumerate(chunk)]
        plist.append({"name": "literals/%d" % (i // 250), "kind": "b", "lits": chunk, "steps": [("snip", "\n".join(lines) + "\n")],
                      "mods": [], "globals": [("h%d" % k, bits(v)) for k, v in enumerate(vals)],
                      "globals_f": [("h%d" % k, v) for k, v in enumerate(vals)], "budget": 2000000})
    # ---- (b2) literals printed, several per function: each must print as the double its own text denotes (a constant
    # table that merges 'nearly equal' numbers, or an equality with a tolerance, shows here and only here)
    tiny = ["0", "0.0", "0.0000000000000001", "0.00000000000000015", "0.00000000000000005", "0.000000000000000000001", "0.00000000000000022", "0.0000000000000002220446049250313",
            "0.0000000000000004", "1", "1.0000000000000002", "1.0000000000000004", "0.9999999999999999", "2", "2.0000000000000004", "0.1", "0.10000000000000002", "0.30000000000000004", "0.3"]
    for i in range(40 if quick else 1000 * common.TS):
        picks = [rng.choice(tiny) for _ in range(12)] + [str(rng.below(10 ** rng.range(1, 16)) / 10 ** rng.range(1, 22)).replace("e-", "") for _ in range(4)]
        picks = [t for t in picks if "e" not in t and t.replace(".", "").isdigit()]
        body = "\n".join("    print(%s);" % t for t in picks)
        cmp_lines = "\n".join("print(%s == %s);" % (picks[k], picks[k + 1]) for k in range(0, len(picks) - 1, 3))
        plist.append({"name": "printed-literals/%d" % i, "kind": "d", "steps": [("snip", "fn show() {\n%s\n}\nshow();\n%s\nprint(0.1 + 0.2 == 0.3);\n" % (body, cmp_lines))], "mods": []})
    # ---- (c)
    digit_strings = [str(n) for n in range(0, 100)] + ["%02d" % n for n in range(0, 10)] + ["0", "00", "007"]
    digit_strings += [str(rng.below(1000)) for _ in range(40 if quick else 900 * common.TS)]
    suffixes = [".len", "..3", ".5", ". 5", ".", "..", "", ".x.y", "..-1", ".len()", ".to_num", "...3", ".5.5", ".e5"]
    for d in digit_strings:
        for sfx in suffixes:
            text = "print(%s%s);\nprint(\"after\");\n" % (d, sfx)
            plist.append({"name": "lex/%s%s" % (d, sfx), "kind": "c", "steps": [("snip", text)], "mods": []})

    # ---- (e) numbers formatted right after other text-producing operations, successful or failed half-way (a conversion
    # that stopped at a bad element, an interpolation whose later part failed, a rejected argument), in the same run, in a
    # later run on the same interpreter, and after reset(): the text of a number depends on the number alone
    events = ["String.from_code_points([49, 46, -1])", "String.from_code_points([45, 49, 1114112])", "String.from_code_points([55, 55296])",
              "String.from_utf8([49, 46, 255])", "String.from_utf8([45, 226, 130])", "String.from_ascii([51, 46, 300])", "String.from_ascii([52, nil])",
              "\"${1}.${nil + 1}\"", "\"7${[][0]}\"", "\"1.\" + nil", "\"-\".replace(\"-\", 5)", "\"1e\".to_num()", "\"9\".find(\"\", 0)",
              "String.from(nil + 1)", "[1, 2].iter().map(|q| \"${q}.${nil.y}\").collect()", "\"3.\"[5]", "\"0.\".split(7)",
              "String.from_code_points([49, 50])", "\"12\" + \".5\"", "\"${12}.\"", "String.from(0.5)", "\"1.5\".to_num()", "String.from_utf8([45, 48])"]
    for i in range(60 if quick else 2000 * common.TS):
        r = rng.fork("dirty/%d" % i)
        chunk = [r.choice(doubles[:400]) if r.chance(50) else from_bits(r.next()) for _ in range(8)]
        blocks = []
        for k in range(len(chunk)):
            g = "g%d" % k
            ev = r.choice(events)
            blocks.append("try { var tmp = %s; print(type(tmp)); } catch e { print(type(e)); }\n"
                          "print(\"${%s}\"); print(%s); print(String.from(%s)); print(\"<${%s}|${%s}>\"); print(String.from(%s).to_num() == %s || %s != %s);\n"
                          % (ev, g, g, g, g, g, g, g, g, g))
        shape = r.below(3)
        if shape == 0:
            steps = [("snip", "".join(blocks))]
        elif shape == 1:
            # the failing operation ends its run uncaught; the numbers are formatted by the next run
            steps = []
            for k, b in enumerate(blocks):
                steps.append(("snip", "var tmp%d = %s;\nprint(\"survived\");\n" % (k, r.choice(events))))
                steps.append(("snip", b))
        else:
            steps = [("snip", "".join(blocks[:4])), ("snip", "var t = %s;\n" % r.choice(events[:17])), ("snip", "".join(blocks[4:]))]
        plist.append({"name": "dirty/%d" % i, "kind": "e", "steps": steps, "mods": [],
                      "globals": [("g%d" % k, bits(v)) for k, v in enumerate(chunk)],
                      "globals_f": [("g%d" % k, v) for k, v in enumerate(chunk)], "budget": 2000000})

    def seen(p, m, res):
        v = m["view"][0]
        st = res["steps"][0]
        if p.get("kind") == "a":
            outs = st.get("out", [])
            for k, x in enumerate(p["values"]):
                if len(outs) < 5 * k + 5:
                    break
                texts = outs[5 * k:5 * k + 3]
                ck.count("doubles_checked")
                ck.note_nontrivial(repr(bits(x)))
                for t in texts:
                    ok = True
                    if x != x:
                        ok = t == "NaN"
                    else:
                        try:
                            back = float(t.replace("inf", "inf"))
                        except ValueError:
                            back = None
                        ok = back is not None and bits(back) == bits(x)
                        if ok and not math.isinf(x) and x == math.floor(x) and ("." in t or "e" in t.lower()):
                            ok = False
                    if not ok:
                        ck.violation("NumberTextRoundTrip", {"value_bits": "%016x" % bits(x), "printed": t,
                                                             "what": "printed text does not parse back to the same double (or an integral value printed with a fraction/exponent)",
                                                             "steps": p["steps"], "globals": p["globals"]})
                if outs[5 * k + 3:5 * k + 5] != ["true", "true"]:
                    ck.violation("NumberSelfCheck", {"value_bits": "%016x" % bits(x), "printed": outs[5 * k:5 * k + 5],
                                                     "what": "String.from(x).to_num() != x inside the program",
                                                     "steps": p["steps"], "globals": p["globals"]})
            if len(ck.samples) < 2:
                ck.sample({"value_bits": ["%016x" % bits(x) for x in p["values"][:3]], "printed": outs[:15]})
        elif p.get("kind") == "b":
            ck.count("literals_checked", len(p["lits"]))
            for t in p["lits"]:
                ck.note_nontrivial("lit" + t)
        else:
            ck.count("lexing_cases")
            ck.note_nontrivial(p["name"])

    checked, discarded = modelcheck.check_programs(ck, plist, on_result=seen, opts={"gc": "never"}, extra_cfgs=("dev", "rel"))
    ck.evaluations = ck.coverage.get("doubles_checked", 0) + ck.coverage.get("literals_checked", 0) + ck.coverage.get("lexing_cases", 0)
    ck.coverage["programs_checked"] = checked
    ck.coverage["programs_discarded_by_model"] = discarded
    return ck.finish("(a) %d doubles (boundaries + random bit patterns / integers / short decimals) injected as host "
                     "globals, printed three ways and parsed back; (b) decimal literals (short exhaustively; 12-24 significant digits and shortest texts of random doubles sampled) compared with the host's nearest "
                     "double; (c) digit strings followed by each dot-suffix; non-trivial = distinct double / literal / "
                     "lexing case" % len(doubles))


def replay(data):
    return modelcheck.replay_generic(data, "C19")
