"""C02 - running a program never panics, crashes or corrupts memory.

Oracle D (absence of abnormal termination) on three builds: `hook` (release profile with every
safe_* switch and overflow checks: every unchecked fast path panics instead of corrupting, so a
would-be corruption becomes a visible panic), `dev` (adds debug assertions) and `asan` (release,
unchecked stack / raw fiber pointer / unchecked opcodes, collect-at-every-allocation, under
AddressSanitizer). Workloads: the built-in sweep (every native and core method name read from the
sources x every receiver of an adversarial value pool x argument tuples of arity 0-3), every
operator / statement on ill-typed operands, stress programs (recursion to and beyond the frame limit
with narrow and wide frames, self-referential data, fiber and iterator misuse, long strings and
vectors), and the ill-typed generator profiles. Oracle A (reference model) runs on the same programs
where the model can predict them, so 'reported as the wrong kind of error' is caught too."""
import os

from .. import common
from ..common import Check, mk_case, snip
from ..gen import feat_data, hostile, progs
from . import modelcheck, C01


def hostile_profiles(avoid):
    P = progs.Profile
    return [("hostile", P(w=dict(var=8, assign=6, print=10, if_=4, while_=3, for_=4, block=2, fn=4, call=6, lam=3, opassign=5,
                                 brk=1, cont=1, ret=2, setitem=4, chain=6, strop=4, itchain=3, field=0), probe=10, expr_depth=3,
                          illtyped=30, max_depth=3, stmts=(4, 12), uncaught=40, avoid=avoid))]


def first_source(p):
    return next((st[1] for st in p["steps"] if st[0] in ("snip", "keep")), "")


def signature_of_abort(res):
    st = res["abort"]["status"]
    text = " ".join(str(x) for x in st)
    if "stack overflow" in text or "overflowed its stack" in text:
        return "NativeStackOverflow"
    a = C01.asan_signature(res["abort"])
    if a:
        return a
    if res["abort"]["why"] == "timeout":
        return "Hang"
    return "Abort(%s)" % (st[1] if len(st) > 1 else "?")


def run(tier):
    ck = Check("C02", tier)
    quick = tier == "quick"
    cfgs = ["hook", "dev", "asan"]
    common.build(cfgs)
    common.replay_witnesses(ck, ["hook", "dev"])
    rng = ck.rng
    sweep, ncalls, names = hostile.sweep_programs(rng.fork("sweep"), quick)
    ops = hostile.operator_programs(rng.fork("ops"), quick)
    stress = hostile.stress_programs()
    gen = []
    r2 = rng.fork("hostile")
    prof = hostile_profiles(ck.findings.avoid_tags())[0][1]
    for i in range(500 if quick else 20000 * common.TS):
        src, mods = progs.generate(r2.fork(str(i)), prof)
        gen.append(("hostile/%d" % i, src, mods))
    r3 = rng.fork("itermut")
    for i in range(200 if quick else 5000 * common.TS):
        gen.append(("itermut/%d" % i, feat_data.iter_mutation_program(r3.fork(str(i))), []))
    # programs of every feature profile (classes, closures, fibers, exceptions, modules, iteration ...) and multi-run /
    # host-API histories: whatever else they check, none of them may panic, abort or touch freed memory either
    from ..gen import feat_repl, profiles as allp
    wide = [(n, s_, m_) for n, s_, m_ in allp.gc_workload(rng.fork("profiles"), 300 if quick else 8000 * common.TS)]
    gen += wide
    histories = []
    r4 = rng.fork("histories")
    for i in range(120 if quick else 4000 * common.TS):
        steps, hm = (feat_repl.history if i % 2 else feat_repl.host_history)(r4.fork(str(i)))
        histories.append({"name": "history/%d" % i, "steps": steps, "mods": hm, "budget": 3000000})
    from ..gen import feat_index
    gen += hostile.extreme_arith_programs(rng.fork("extreme"), quick)
    gen += hostile.statement_call_programs(rng.fork("stmtcall"), quick)
    gen += [(n_, s_, []) for n_, s_ in feat_index.programs(rng.fork("index"))]
    # the byte-exact string / index battery of C13 (every string function over every pairing of short receivers and
    # arguments - shorter, equal, longer, overlapping -, conversions from bytes and code points): none may panic
    from . import C13
    exprs = C13.checks(True, rng.fork("c13"))
    for i in range(0, len(exprs), 400):
        gen.append(("strings/%d" % (i // 400), "\n".join(C13.wrap(e) for e in exprs[i:i + 400]) + "\n", []))
    ck.coverage["builtin_calls_enumerated"] = ncalls
    ck.coverage["method_names_swept"] = names
    ck.coverage["value_pool_size"] = len(hostile.POOL)
    allprogs = sweep + ops + stress + gen
    plist = [{"name": n, "steps": [("snip", s)], "mods": m, "budget": 3000000} for n, s, m in allprogs] + histories
    known = {k.get("sig"): k for k in ck.findings.for_property("C02")}

    # oracle A + D on the hooked build
    def seen(p, m, res):
        v = m["view"][0]
        if v.get("res") == "compile_error" and p["name"].startswith("strings/"):
            ck.inconclusive.append("battery %s does not compile: none of its checks ran" % p["name"])
        if v.get("res") == "compile_error" and not p["name"].startswith("history/"):
            ck.count("programs_not_compiling")
            return
        ck.note_nontrivial(repr(p["steps"])[:6000])
        ck.count("expected_error_outcomes", sum(1 for t in v.get("out", []) if t.endswith("Error>")))

    modelcheck.check_programs(ck, plist, opts={"gc": "always", "quarantine": 1}, on_result=seen, sig_prefix="Hostile")
    # oracle D on dev and asan (programs the model discarded are included here: no expectation needed)
    env = dict(os.environ)
    env.update(C01.ASAN_ENV)
    for cfg in ("dev", "asan"):
        cases = [mk_case("h%d" % i, p["steps"], {}, p["mods"]) for i, p in enumerate(plist)]
        results = common.run_batch(cfg, cases, timeout=common.batch_timeout(tier, len(cases) / 4, per_case=1.0), env=env if cfg == "asan" else None)
        for p, res in zip(plist, results):
            ck.evaluations += 1
            ck.count("executions_" + cfg)
            if "abort" in res:
                if res["abort"]["why"] == "timeout" and not common.confirmed_hang(cfg, mk_case("c", p["steps"], {}, p["mods"]), env=env if cfg == "asan" else None):
                    ck.inconclusive.append("watchdog fired on %s (%s) but did not reproduce" % (p["name"], cfg))
                    continue
                ck.violation(signature_of_abort(res), {"program": p["name"], "config": cfg, "steps": p["steps"], "modules": p["mods"],
                                                       "what": str(res["abort"])[:3000], "source": first_source(p)})
                continue
            for msg, loc in common.panics_of(res):
                ck.violation("Panic(%s @ %s)" % (msg[:80], loc.replace(common.REPO, "")), {
                    "program": p["name"], "config": cfg, "steps": p["steps"], "modules": p["mods"], "what": "%s @ %s" % (msg, loc),
                    "source": first_source(p)})
            for st in res.get("steps", []):
                if st.get("res") == "err" and not st.get("msgs"):
                    ck.violation("ErrorWithoutMessage", {"program": p["name"], "config": cfg, "steps": p["steps"], "modules": p["mods"],
                                                         "what": "interpret returned an Err with no message"})
    if ck.coverage.get("programs_not_compiling", 0) > len(plist) // 50:
        ck.inconclusive.append("%d of %d hostile programs do not compile" % (ck.coverage["programs_not_compiling"], len(plist)))
    common.replay_known(ck, opts={"gc": "never"})
    ck.sample({"sweep_program_tail": sweep[0][1][-600:]})
    return ck.finish("built-in sweep (%d calls: %d method names x %d pool receivers x arities 0-3), operator/statement sweep "
                     "on ill-typed operands (incl. the same object in two roles of one operation; error contexts compared), %d stress programs, %d ill-typed generated programs and iterator-vs-mutation histories; each on the hooked "
                     "(checked), dev and ASan (unchecked) builds; non-trivial = distinct program run"
                     % (ncalls, len(names), len(hostile.POOL), len(stress), len(gen)))


def replay(data):
    cfg = data.get("config", "hook")
    common.build([cfg])
    res = common.run_batch(cfg, [mk_case("replay", [tuple(s) for s in data["steps"]], {}, [tuple(m) for m in data.get("modules", [])])], shards=1, timeout=600)[0]
    print(str(res)[:3000])
    bad = "abort" in res or common.panics_of(res)
    print("VIOLATION property=C02 replay=<given>" if bad else "ok")
    return 1 if bad else 0
