"""closure / scoping patterns for C06: several closures over one variable, one closure over many,
captures through several function levels, captured parameters and loop-body variables, closures
that outlive their scope by every exit path."""


def s_counter(g, depth):
    r = g.r
    mk = g.fresh("mk")
    c1 = g.fresh("c")
    c2 = g.fresh("c")
    step = r.choice(["1", "2", "10"])
    L = ["fn %s(start) {" % mk, "    var n = start;", "    fn inc() { n = n + %s; return n; }" % step,
         "    fn get() { return n; }", "    return [inc, get, |x| { n = x; return n; }];", "}",
         "var %s = %s(%s);" % (c1, mk, r.choice(["0", "5"])), "var %s = %s(100);" % (c2, mk)]
    g.declare(mk, "clfn:1", const=True)     # returns closures: never used where a number is expected
    g.declare(c1, "cl", const=True)
    g.declare(c2, "cl", const=True)
    for _ in range(r.range(2, 6)):
        c = r.choice([c1, c2])
        op = r.choice(["[0]()", "[1]()", "[2](%s)" % r.choice(["7", "-1", "0.5"])])
        L.append("print(%s%s);" % (c, op))
    return L


def s_closure_vec(g, depth):
    r = g.r
    fs = g.fresh("fs")
    x = g.fresh("x")
    kind = r.choice(["for_range", "for_vec", "while"])
    exitk = r.choice(["none", "break", "continue", "none"])
    L = ["var %s = [];" % fs]
    body = ["var sq = %s * %s;" % (x, x), "var label = \"i${%s}\";" % x]
    if r.chance(50):
        body.insert(r.below(3), "var plain0 = %s + 0.5;" % x)      # uncaptured locals between captured ones
    body.append("%s.push(|| [%s, sq, label]);" % (fs, x) if r.chance(50) else "%s.push(|| { sq = sq + 1; return [sq, label]; });" % fs)
    if r.chance(60):
        body.append("var plain1 = [%s];" % x)
    if r.chance(30):
        body.append("var plain2 = plain1;" if "plain1" in body[-1] else "var plain2 = 1;")
    if exitk == "break":
        body.append("if %s == 2 { break; }" % x)
    elif exitk == "continue":
        body.append("if %s == 1 { continue; }" % x)
    body.append("%s.push(|d| sq + d);" % fs if r.chance(40) else "%s.push(|d| label);" % fs)
    if kind == "for_range":
        L.append("for %s in 0..4 {" % x)
        L += g.ind(body)
        L.append("}")
    elif kind == "for_vec":
        L.append("for %s in [3, 1, 2] {" % x)
        L += g.ind(body)
        L.append("}")
    else:
        L.append("var %s = 0;" % x) if False else None
        L = [l for l in L if l is not None]
        L.append("var w%s = 0;" % x)
        L.append("while w%s < 4 {" % x)
        inner = ["var %s = w%s;" % (x, x), "w%s = w%s + 1;" % (x, x)] + body
        L += g.ind(inner)
        L.append("}")
    g.declare(fs, "clvec", const=True)
    L.append("for f in %s { try { print(f()); } catch e { print(f(1)); } }" % fs)
    L.append("for f in %s { try { print(f()); } catch e { print(f(2)); } }" % fs)
    return L


def s_shared(g, depth):
    """getter / setter / adder over one variable declared in a block, used after the block exited"""
    r = g.r
    a, b, c = g.fresh("get"), g.fresh("set"), g.fresh("add")
    L = ["var %s = nil; var %s = nil; var %s = nil;" % (a, b, c), "{", "    var shared = %s;" % r.choice(["1", "\"s\"", "[1]"]),
         "    var other = 10;", "    %s = || shared;" % a, "    %s = |v| { shared = v; return other; };" % b,
         "    %s = |d| { other = other + d; return [shared, other]; };" % c, "    shared = %s;" % r.choice(["2", "\"t\""]), "}"]
    for _ in range(r.range(2, 5)):
        L.append(r.choice(["print(%s());" % a, "print(%s(%s));" % (b, r.choice(["5", "\"z\"", "nil"])),
                           "print(%s(%s));" % (c, r.choice(["1", "2.5"]))]))
    for n in (a, b, c):
        g.declare(n, "cl", const=True)
    return L


def s_levels(g, depth):
    """capture through 2-4 function levels, declaration order different from capture order"""
    r = g.r
    f = g.fresh("lv")
    n = r.range(2, 4)
    names = ["p", "q", "r", "s"][:n + 1]
    order = r.shuffle(names)
    L = ["fn %s(p) {" % f, "    var q = p + 1;", "    var r = \"r${p}\";", "    var s = [p];"]
    inner = "|| [%s]" % ", ".join(order)
    for lvl in range(n):
        inner = "|| { var hop%d = %d; return %s; }" % (lvl, lvl, inner) if lvl < n - 1 else inner
    body = "    var deep = %s;" % inner
    L.append(body)
    L.append("    q = q * 2;")
    L.append("    s.push(q);")
    L.append("    return deep;")
    L.append("}")
    g.declare(f, "clfn:1", const=True)
    call = "%s(%s)" % (f, r.choice(["1", "7"]))
    L.append("var d%s = %s;" % (f, call))
    unwrap = "d%s" % f
    for lvl in range(n):
        unwrap += "()"
    L.append("print(%s);" % unwrap if n >= 1 else "print(1);")
    return L


def s_exitpaths(g, depth):
    """a closure created in a scope that is then left by return / throw / fall-through"""
    r = g.r
    f = g.fresh("ex")
    keep = g.fresh("keep")
    L = ["var %s = [];" % keep, "fn %s(mode) {" % f, "    var a = mode * 10;", "    {",
         "        var b = a + 1;", "        %s.push(|| [a, b]);" % keep, "        %s.push(|v| { b = v; a = a + 1; return a; });" % keep,
         "        if mode == 1 { return \"early\"; }", "        if mode == 2 { throw \"thrown\"; }", "        b = b + 100;", "    }",
         "    a = a + 1000;", "    return \"late\";", "}"]
    g.declare(f, "fn:1", const=True)
    g.declare(keep, "clvec", const=True)
    for mode in r.sample([0, 1, 2], r.range(1, 3)):
        L.append("try { print(%s(%d)); } catch e { print(e); }" % (f, mode))
    L.append("var k%s = 0;" % keep)
    L.append("for f in %s { if k%s %% 2 == 0 { print(f()); } else { print(f(k%s)); } k%s = k%s + 1; }" % (keep, keep, keep, keep, keep))
    L.append("for f in %s { try { print(f()); } catch e { print(\"arity\"); } }" % keep)
    return L


def s_shadow(g, depth):
    r = g.r
    v = g.fresh("sh")
    L = ["var %s = \"outer\";" % v, "{", "    var get0 = || %s;" % v, "    var %s = \"inner\";" % v, "    var get1 = || %s;" % v,
         "    {", "        var %s = \"innermost\";" % v, "        print([get0(), get1(), %s]);" % v, "        %s = \"changed\";" % v, "    }",
         "    print([get0(), get1(), %s]);" % v, "    %s = \"inner2\";" % v, "    print([get0(), get1()]);", "}", "print(%s);" % v]
    g.declare(v, "str")
    return L


def s_exitmatrix(g, depth):
    """scope kind x position of the captured variable in the scope x exit path: closures created in a plain block, a
    loop body, a try block, a catch block or a function body, over the first / a later variable of that scope,
    which is then left by fall-through, break, continue, return, a direct throw or a throw from a nested call;
    the closures are read, written and read again afterwards"""
    r = g.r
    f = g.fresh("xm")
    keep = g.fresh("xk")
    thrower = g.fresh("xt")
    cont = r.choice(["block", "while", "for", "try", "try", "catch", "fnbody"])
    exits = {"block": ["fall", "return", "throw", "throwdeep"], "while": ["fall", "break", "continue", "return", "throw"],
             "for": ["fall", "break", "continue", "return", "throwdeep"], "try": ["fall", "throw", "throwdeep"],
             "catch": ["fall", "throw"], "fnbody": ["fall", "return", "throw", "throwdeep"]}[cont]
    if cont == "try" and r.chance(35) and "exc.return_in_try_no_finally" in g.p.avoid:
        pass
    pad_outer = r.range(0, 2)
    pad_inner = r.range(0, 2)
    L = ["var %s = [];" % keep, "fn %s(n) { if n <= 0 { throw \"deep\"; } return %s(n - 1); }" % (thrower, thrower),
         "fn %s(mode) {" % f]
    for i in range(pad_outer):
        L.append("    var po%d = %d;" % (i, i))
    ind = "        "
    if cont == "block":
        L.append("    {")
    elif cont == "while":
        L += ["    var turn = 0;", "    while turn < 2 {", ind + "turn = turn + 1;"]
    elif cont == "for":
        L.append("    for turn in 1..3 {")
    elif cont == "try":
        L.append("    try {")
    elif cont == "catch":
        L.append("    try { throw \"first\"; } catch err {")
    else:
        ind = "    "
    for i in range(pad_inner):
        L.append(ind + "var pi%d = \"pad%d\";" % (i, i))
    L += [ind + "var a = \"a\" + String.from(mode);", ind + "var b = mode * 10;",
          ind + "%s.push(|| [a, b]);" % keep, ind + "%s.push(|| { b = b + 1; a = a + \"!\"; return b; });" % keep]
    if cont == "catch":
        L.append(ind + "%s.push(|| err);" % keep)
    for mi, ex in enumerate(exits):
        if ex == "fall":
            continue
        stmt = {"break": "break;", "continue": "continue;", "return": "return \"returned\";", "throw": "throw \"thrown\";",
                "throwdeep": "%s(%d);" % (thrower, r.range(0, 3))}[ex]
        L.append(ind + "if mode == %d { %s }" % (mi, stmt))
    L.append(ind + "b = b + 100;")
    if cont == "try":
        L += ["    } catch e {", "        %s.push(|| e);" % keep, "        print([\"handler\", e]);", "    }"]
    elif cont != "fnbody":
        L.append("    }")
    L += ["    return \"end\";", "}"]
    g.declare(f, "clfn:1", const=True)
    g.declare(keep, "clvec", const=True)
    g.declare(thrower, "clfn:1", const=True)
    modes = r.sample(list(range(len(exits))), r.range(1, len(exits)))
    for m in modes:
        L.append("try { print(%s(%d)); } catch e { print([\"escaped\", e]); }" % (f, m))
    L.append("for q in 0..2 { for c in %s { print(c()); } }" % keep)
    return L


def capture_limit_programs():
    """one closure over k variables of two enclosing functions, for k around the one-byte capture limit (256): each
    captured name must read and write its own variable, or the program must be rejected"""
    out = []
    for k in (200, 250, 254, 255, 256, 257, 258, 260):
        for split in (0, 100, 200):
            if split >= k:
                continue
            outer = "\n".join("    var l%d = %d;" % (i, i) for i in range(split))
            inner = "\n".join("        var l%d = %d;" % (i, i) for i in range(split, k))
            uses = " + ".join("l%d" % i for i in range(k))
            last = k - 1
            src = ("fn f() {\n%s\n    fn g() {\n%s\n        var sum = || %s;\n        var poke = |v| { l%d = v; return l0; };\n"
                   "        return [sum, poke, || l%d, || l0];\n    }\n    return g();\n}\n"
                   "var fs = f();\nprint(fs[0]());\nprint(fs[1](5000));\nprint(fs[2]());\nprint(fs[3]());\nprint(fs[0]());\n"
                   % (outer, inner, uses, last, last))
            out.append(("capture-limit/%d/%d" % (k, split), src))
            # a single closure that both reads all k and writes the last one
            src2 = ("fn f() {\n%s\n    var both = |v| { l%d = v; return %s; };\n    return [both, || l0, || l%d];\n}\n"
                    "var fs = f();\nprint(fs[0](7000));\nprint(fs[1]());\nprint(fs[2]());\n"
                    % ("\n".join("    var l%d = %d;" % (i, i) for i in range(min(k, 250))), min(k, 250) - 1,
                       " + ".join("l%d" % i for i in range(min(k, 250))), min(k, 250) - 1))
            if split == 0:
                out.append(("capture-one-level/%d" % min(k, 250), src2))
    return out


def s_fiber_cells(g, depth):
    """captured variables that live on the stack of a fiber: shared by their closures while the fiber is suspended, after
    it was abandoned, and after it finished (see feat_fiber.abandoned_accessors)"""
    from . import feat_fiber
    if g.fdepth > 0:
        return s_shared(g, depth)
    return feat_fiber.abandoned_accessors(g)


def s_selfname(g, depth):
    """inside a function its own name means the variable the function was declared as: assigning to it (the run-once
    idiom) or rebinding it while the old closure is still reachable changes what a later use of the name sees"""
    r = g.r
    f = g.fresh("once")
    h = g.fresh("step")
    local = r.chance(50)
    L = ["var %s_runs = 0;" % f,
         "fn %s() { %s_runs = %s_runs + 1; print(\"setting up\"); %s = || { print(\"already set up\"); return %s_runs; }; return 0; }" % (f, f, f, f, f),
         "%s(); print(%s()); print(%s());" % (f, f, f),
         "fn %s(n) { if n <= 0 { return \"old done\"; } return %s(n - 1); }" % (h, h),
         "var %s_alias = %s;" % (h, h),
         "%s = |n| \"new step(${n})\";" % h,
         "print(%s_alias(2)); print(%s(3));" % (h, h)]
    if local:
        L = ["{"] + ["    " + l for l in L] + ["}"]
    else:
        g.declare(f, "clfn:0", const=True)
        g.declare(h, "clfn:1", const=True)
        g.declare(f + "_runs", "num", const=True)
        g.declare(h + "_alias", "clfn:1", const=True)
    return L


def s_midshadow(g, depth):
    """three nesting levels: the middle function lets an inner function capture an outer variable, then declares its own
    variable of the same name; inner functions written after that declaration must see the middle one's"""
    r = g.r
    o = g.fresh("ms")
    nm = r.choice(["x", "name", "v"])
    L = ["fn %s() {" % o, "    var %s = \"outer\";" % nm, "    fn mid() {", "        var first = || %s;" % nm,
         "        var writes = |z| { %s = z; return %s; };" % (nm, nm), "        var %s = \"mid\";" % nm,
         "        var second = || %s;" % nm, "        var third = |z| { %s = z; return %s; };" % (nm, nm),
         "        return [first, writes, second, third, || %s];" % nm, "    }", "    var fs = mid();",
         "    print([fs[0](), fs[2](), fs[4]()]);", "    print(fs[1](\"outer2\"));", "    print(fs[3](\"mid2\"));",
         "    print([fs[0](), fs[2](), fs[4](), %s]);" % nm, "}", "%s();" % o]
    g.declare(o, "clfn:0", const=True)
    return L


def finally_capture_program(rng):
    """variables declared before, inside and around a try statement, captured by closures before the block is left by
    return / fall-through / exception / break-free loop exit, and then written and read by the finally block and by
    the closures in either order: while the finally block runs the function is still live, so both see one variable"""
    r = rng
    L = ["var log = [];"]
    calls = []
    for k in range(r.range(2, 4)):
        exit_ = r.choice(["return", "return", "fall", "throw", "return-nested"])
        nparam = r.chance(50)
        decl_before = r.range(1, 3)
        body = []
        names = (["p"] if nparam else []) + ["x%d" % i for i in range(decl_before)]
        for i in range(decl_before):
            body.append("var x%d = %d;" % (i, (k + 1) * 10 + i))
        tgt = r.choice(names)
        body.append("var get = || [%s];" % ", ".join(names))
        body.append("var set = |v| { %s = v; return %s; };" % (tgt, tgt))
        body.append("var bump = || { %s return %s; };" % (" ".join("%s = %s + 1;" % (n, n) for n in names), names[0]))
        tb = ["var inner = \"in%d\";" % k, "var geti = || inner;", "%s = %s + 1;" % (tgt, tgt)]
        if exit_ == "return":
            tb.append("return [get, set, bump, geti];")
        elif exit_ == "return-nested":
            tb.append("if true { var deeper = [%s]; var getd = || deeper; return [get, set, bump, getd]; }" % tgt)
        elif exit_ == "throw":
            tb.append("throw [get, set, bump, geti];")
        fin = []
        for _ in range(r.range(1, 3)):
            fin.append(r.choice(["%s = %s + 100;" % (tgt, tgt), "log.push(get());", "set(%d); log.push(%s);" % (500 + k, tgt), "bump(); log.push(get());",
                                 "log.push(%s);" % tgt, "%s = %s * 2;" % (tgt, tgt)]))
        body.append("try {")
        body += ["    " + t for t in tb]
        body.append("} finally {")
        body += ["    " + t for t in fin]
        body.append("}")
        body.append("%s = %d;" % (tgt, 1000 + k))
        body.append("return [get, set, bump, || \"fell\"];")
        L.append("fn f%d(%s) {" % (k, "p" if nparam else ""))
        L += ["    " + b for b in body]
        L.append("}")
        arg = "7" if nparam else ""
        if exit_ == "throw":
            calls.append("var r%d = nil; try { f%d(%s); } catch e { r%d = e; }" % (k, k, arg, k))
        else:
            calls.append("var r%d = f%d(%s);" % (k, k, arg))
        calls.append("print(r%d[0]()); print(r%d[3]()); print(r%d[2]()); print(r%d[0]()); print(r%d[1](9%d)); print(r%d[0]()); print(log);" % (k, k, k, k, k, k, k))
    return "\n".join(L + calls) + "\n"
