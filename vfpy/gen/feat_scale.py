"""Size ladders: the same small program at every size N of a ladder that straddles the powers of two and the
limits an implementation is likely to use for inline buffers, table growth, caches and counters (0..20, 31..33,
63..65, 127..129, 255..257, 511..513, 1000, 4095..4097, ...).  One template per sized thing a program can make:
strings (built by concatenation, interpolation and as one literal), vectors, tuples and maps (literal and grown),
call depth, handler depth (static nesting and recursion), fibers calling fibers, yields on one fiber, captured
variables and closures per frame, inheritance depth, methods and fields per class, import chains, loop trip
counts, iterator adapter depth, arguments per call, statements per run.  The reference model decides every
output, so a behaviour that changes at some size - right for the first k, wrong afterwards - shows as a mismatch
at the first size beyond it.  Each template names the property it belongs to; the owning check runs it."""

LADDER = list(range(0, 21)) + [24, 31, 32, 33, 48, 63, 64, 65, 100, 127, 128, 129, 200, 255, 256, 257, 300, 511, 512, 513, 1000, 1023,
                               1024, 1025, 2000, 4095, 4096, 4097, 10000]


def _sizes(lo, hi, rng, quick, extra=3):
    base = [n for n in LADDER if lo <= n <= hi]
    if quick and len(base) > 24:
        # all small sizes, every boundary triple, fewer of the rest
        keep = [n for n in base if n <= 9 or n in (15, 16, 17, 31, 32, 33, 63, 64, 65, 127, 128, 129, 255, 256, 257, 1024, 4096)]
        base = keep
    out = set(base)
    for _ in range(extra):
        out.add(rng.range(lo, hi))
    return sorted(out)


PARTS = ["a", "é", "€", "😀", "b", "xy"]


def t_string_built(n, r):
    return "\n".join([
        "var parts = [\"a\", \"é\", \"€\", \"😀\", \"b\", \"xy\"];",
        "var s = \"\"; var s2 = \"\"; var i = 0;",
        "while i < %d { s = s + parts[i %% 6]; s2 = \"${s2}${parts[i %% 6]}\"; i += 1; }" % n,
        "print(s.len()); print(s.count_chars()); print(s == s2);",
        "var m = {}; m.insert(s, %d); print(m.get(s2)); print(m.has_key(s + \"\"));" % n,
        "try { print(s.find(\"😀\", 0)); print(s.find(\"zz\", 0)); } catch e { print(type(e)); print(e.context); } try { print(s.find(\"b\", s.len() / 2)); } catch e { print(type(e)); print(e.context); } print(s.replace(\"é\", \"EE\").len()); print(s.split(\"€\").len());",
        "print(s.starts_with(s2)); print(s.ends_with(\"xy\")); print(s.to_bytes().len()); print(s.to_code_points().len());",
        "var last = nil; var cnt = 0; for c in s { last = c; cnt += 1; } print(last); print(cnt);",
        "print(String.from_utf8(s.to_bytes()) == s); print(String.from_code_points(s.to_code_points()) == s2);",
        "try { print(s[0..1]); print(s[-1..s.len()].len()); print(s[s.len() - 1]); } catch e { print(type(e)); print(e.context); }",
        "var t = (s, 1); var mt = {}; mt.insert(t, \"tuple-key\"); print(mt.get((s2, 1)));",
        "print(\"<${s}>\".len()); print((s + s).len()); print(s + \"!\" == s2 + \"!\");",
    ]) + "\n"


def t_string_literal(n, r):
    alphabet = ["a", "b", "é", "€", "😀", "\\n", "\\\"", "\\\\", " ", "0", "\\t"]
    toks = [alphabet[(i * 7 + i // 5) % len(alphabet)] for i in range(n)]
    lit = "".join(toks)
    # the same text built piecewise at run time
    return "\n".join([
        "var lit = \"%s\";" % lit,
        "var toks = [%s];" % ", ".join("\"%s\"" % t for t in alphabet),
        "var b = \"\"; var i = 0; while i < %d { b = b + toks[(i * 7 + (i - i %% 5) / 5) %% %d]; i += 1; }" % (n, len(alphabet)),
        "print(lit.len()); print(lit == b); print(lit.count_chars());",
        "var m = {}; m.insert(b, 1); print(m.has_key(lit));",
        "print(\"%s\" == lit); print(\"x%s\".len());" % (lit, lit),
    ]) + "\n"


def t_ident_length(n, r):
    if n < 1:
        return None
    name = "v" + "".join("abcdefghij_0123456789"[(i * 5) % 21] for i in range(n - 1))
    other = name[:-1] + ("Z" if name[-1] != "Z" else "Y")
    return "\n".join([
        "var %s = %d; var %s = -1;" % (name, n, other),
        "fn f() { var %s = \"local\"; return || %s; }" % (name, name),
        "print(%s); print(%s); print(f()()); %s += 1; print(%s);" % (name, other, name, name),
        "#[constructor(new)] class K { fn %s(self) { return \"method\"; } }" % name,
        "var o = K.new(); o.%s = \"field\"; print(o.%s); print(o.%s()); print(K.new().%s());" % (other, other, name, name),
        "try { print(o.%sq); } catch e { print(type(e)); print(e.context); }" % name,
    ]) + "\n"


def t_vec_literal(n, r):
    if n > 255:
        return None
    return "\n".join([
        "var v = [%s];" % ", ".join(str(i * 3) for i in range(n)),
        "print(v.len()); var sum = 0; for x in v { sum += x; } print(sum);",
        "try { print(v[%d]); print(v[-1]); print(v[0]); } catch e { print(type(e)); print(e.context); }" % (n - 1),
        "try { print(v[%d]); } catch e { print(type(e)); print(e.context); }" % n,
        "try { print(v[1..%d].len()); } catch e { print(type(e)); print(e.context); }" % n,
        "print(v == [%s]);" % ", ".join(str(i * 3) for i in range(n)),
        "var t = (%s%s); print(t.len());" % (", ".join(str(i * 3) for i in range(n)), "," if n == 1 else ""),
        "var c = 0; for x in t { c += x; } print(c); var m = {}; m.insert(t, 1); print(m.has_key((%s%s)));" % (", ".join("%d * 3" % i for i in range(n)), "," if n == 1 else ""),
    ]) + "\n"


def t_vec_grown(n, r):
    return "\n".join([
        "var v = []; var i = 0; while i < %d { v.push([i, \"s${i}\"]); i += 1; }" % n,
        "print(v.len()); var sum = 0; for x in v { sum += x[0]; } print(sum);",
        "try { print(v[-1]); print(v[%d / 2]); } catch e { print(type(e)); print(e.context); }" % n,
        "var it = v.iter(); var seen = 0; for x in it { seen += 1; if seen == %d { break; } } for x in it { seen += 1; } print(seen);" % max(1, n // 2),
        "var popped = 0; while v.len() > %d { v.pop(); popped += 1; } print(popped); print(v.len());" % (n // 3),
        "try { v.pop(); print(v.len()); } catch e { print(type(e)); print(e.context); }",
        "var w = [0..%d][0].iter().map(|x| x + 1).filter(|x| x %% 2 == 0).collect(); print(w.len());" % n,
    ]) + "\n"


def t_map_grown(n, r):
    kind = r.below(3)
    key = ["i", "\"k${i}\"", "(i, \"t\")"][kind]
    key2 = ["j + 0", "\"k\" + String.from(j)", "(j, \"t\")"][kind]
    return "\n".join([
        "var m = {}; var i = 0; while i < %d { m.insert(%s, i * i); i += 1; }" % (n, key),
        "print(m.len()); var sum = 0; var j = 0; while j < %d { sum += m.get(%s); j += 1; } print(sum);" % (n, key2),
        "j = 0; var removed = 0; while j < %d { if m.has_key(%s) { m.remove(%s); removed += 1; } j += 2; } print(removed); print(m.len());" % (n, key2, key2),
        "j = 0; var present = 0; while j < %d { if m.has_key(%s) { present += 1; } j += 1; } print(present);" % (n + 2, key2),
        "print(m.keys().len()); print(m.values().len()); print(m.items().len());",
        "j = 0; while j < %d { m.insert(%s, \"again\"); j += 3; } print(m.len());" % (n, key2),
        "var c = 0; for k in m.keys() { if m.get(k) == \"again\" { c += 1; } } print(c);",
        "m.clear(); print(m.len()); m.insert(1, 2); print(m.len());",
    ]) + "\n"


def t_map_literal(n, r):
    if n > 255:
        return None
    ents = ", ".join("%s: %d" % (("\"k%d\"" % i) if i % 2 else str(i), i) for i in range(n))
    return "\n".join([
        "var m = {%s};" % ents,
        "print(m.len()); var s = 0; for k in m.keys() { s += m.get(k); } print(s);",
        "print(m.has_key(%d)); print(m.has_key(\"k%d\")); print(m.get(\"k1\")); print(m.get(0));" % (n, n),
        "var dup = {1: \"a\", %s 1: \"b\"}; print(dup.len()); print(dup.get(1));" % "".join("%d: %d, " % (i + 2, i) for i in range(min(n, 200))),
    ]) + "\n"


def t_call_depth(n, r):
    if n > 75:
        return None
    return "\n".join([
        "fn rec(n) { if n == 0 { return 0; } return 1 + rec(n - 1); }",
        "try { print(rec(%d)); } catch e { print(type(e)); print(e.context); }" % n,
        "#[constructor(new)] class R { fn go(self, n) { if n == 0 { return []; } var v = self.go(n - 1); v.push(n); return v; } }",
        "try { print(R.new().go(%d).len()); } catch e { print(type(e)); print(e.context); }" % n,
        "fn mk(n) { if n == 0 { return || 0; } var inner = mk(n - 1); return || 1 + inner(); }",
        "try { print(mk(%d)()); } catch e { print(type(e)); print(e.context); }" % min(n, 61),
        "print(rec(3));",
    ]) + "\n"


def t_handler_static(n, r):
    if n > 60 or n < 1:
        return None
    L = []
    for k in range(n):
        L.append("    " * k + "try {")
    L.append("    " * n + "throw \"deep\";")
    for k in range(n - 1, -1, -1):
        pad = "    " * k
        if k == 0:
            L.append(pad + "} catch e { log.push(\"c0 ${e}\"); }")
        elif k % 3 == 2:
            L.append(pad + "} finally { log.push(\"f%d\"); }" % k)
        elif k % 3 == 1:
            L.append(pad + "} catch e { log.push(%d); throw e; }" % k)
        else:
            L.append(pad + "} catch e { log.push(\"s%d\"); throw \"re%d\"; }" % (k, k))
    return "var log = [];\nfn run() {\n" + "\n".join("    " + l for l in L) + "\n}\nrun();\nprint(log);\nprint(log.len());\n" + \
           "try { run(); throw \"after\"; } catch e { print(e); }\nprint(log.len());\n"


def t_handler_recursive(n, r):
    if n > 58:
        return None
    return "\n".join([
        "var log = [];",
        "fn down(n) { try { if n == 0 { throw Error.new(\"bottom\"); } return down(n - 1) + 1; } finally { log.push(n); } }",
        "try { print(down(%d)); } catch e { print(type(e)); print(e.context); } print(log.len()); print(log);" % n,
        "fn down2(n) { var r = 0; try { if n == 0 { [7][1]; } r = down2(n - 1) + 1; } catch e { if n % 2 == 0 { throw e; } log.push(\"c${n}\"); r = 0; } return r; }",
        "log = []; try { print(down2(%d)); } catch e { print(type(e)); } print(log);" % n,
        "fn down3(n) { try { if n == 0 { return 0; } return down3(n - 1) + 1; } finally { log.push(n); } }",
        "log = []; print(down3(%d)); print(log.len());" % n,
    ]) + "\n"


def t_try_loop(n, r):
    # the same try statement executed n times: whatever it installs must be gone each time round
    return "\n".join([
        "var caught = 0; var fin = 0; var i = 0;",
        "while i < %d { try { if i %% 3 == 0 { throw i; } if i %% 3 == 1 { [7][i + 1]; } } catch e { caught += 1; } finally { fin += 1; } i += 1; }" % n,
        "print(caught); print(fin);",
        "fn f(k) { var r = nil; try { if k % 2 == 0 { throw \"even\"; } r = k; } catch e { r = -k; } return r; }",
        "var s = 0; i = 0; while i < %d { s += f(i); i += 1; } print(s);" % n,
        "try { throw \"outer\"; } catch e { print(e); }",
        "try { nil.x; } catch e { print(type(e)); }",
    ]) + "\n"


def t_fiber_chain(n, r):
    if n > 150 or n < 1:
        return None
    return "\n".join([
        "var fibs = [];",
        "fn mk(k) { return Fiber.new(|x| { if k + 1 < fibs.len() { var got = fibs[k + 1].call(x + 1); var back = Fiber.yield(got); return back + k; } var b = Fiber.yield(x); return b; }); }",
        "var i = 0; while i < %d { fibs.push(mk(i)); i += 1; }" % n,
        "try { print(fibs[0].call(0)); } catch e { print(type(e)); print(e.context); }",
        "try { print(fibs[0].call(100)); print(fibs[0].has_finished()); } catch e { print(type(e)); print(e.context); }",
        "var fin = 0; for f in fibs { if f.has_finished() { fin += 1; } } print(fin);",
        "try { print(fibs[%d].call(7)); } catch e { print(type(e)); print(e.context); }" % (n - 1),
    ]) + "\n"


def t_fiber_yields(n, r):
    return "\n".join([
        "var f = Fiber.new(|a| { var acc = a; var i = 0; while i < %d { acc = acc + Fiber.yield(acc); i += 1; } return [\"done\", acc]; });" % n,
        "var r = f.call(1); var k = 0; while !f.has_finished() { r = f.call(1); k += 1; } print(r); print(k);",
        "try { f.call(1); } catch e { print(type(e)); print(e.context); }",
        "var made = 0; var j = 0; while j < %d { var g = Fiber.new(|| { Fiber.yield(j); return j; }); g.call(); if j %% 2 == 0 { g.call(); } made += 1; j += 1; } print(made);" % min(n, 300),
    ]) + "\n"


def t_captures(n, r):
    if n > 250 or n < 1:
        return None
    decl = " ".join("var c%d = %d;" % (i, i) for i in range(n))
    bump = " ".join("c%d += 1;" % i for i in range(0, n, max(1, n // 7)))
    total = " + ".join("c%d" % i for i in range(n))
    return "\n".join([
        "fn mk() { %s var bump = || { %s }; var total = || %s; return [bump, total]; }" % (decl, bump, total),
        "var p = mk(); print(p[1]()); p[0](); p[0](); print(p[1]());",
        "var q = mk(); print(q[1]()); print(p[1]());",
        "fn each() { var fs = []; var i = 0; while i < %d { var j = i; fs.push(|| { j += 1; return j; }); i += 1; } return fs; }" % n,
        "var fs = each(); var s = 0; for f in fs { s += f(); } for f in fs { s += f(); } print(s);",
    ]) + "\n"


def t_inherit_depth(n, r):
    if n > 56 or n < 1:
        return None
    L = ["#[constructor(new)] class K0 { fn who(self) { return \"K0\"; } fn depth(self) { return 0; } fn only0(self) { return self.who(); } #[static] fn sdepth() { return 0; } }"]
    for k in range(1, n + 1):
        body = "fn depth(self) { return super.depth() + 1; }"
        if k % 4 == 0:
            body += " fn who(self) { return \"K%d\"; }" % k
        if k % 5 == 0:
            body += " #[static] fn sdepth() { return %d; }" % k
        L.append("#[derive(K%d), constructor(new)] class K%d { %s }" % (k - 1, k, body))
    L += ["var o = K%d.new();" % n, "try { print(o.depth()); } catch e { print(type(e)); print(e.context); }", "print(o.who()); print(o.only0()); try { print(K%d.sdepth()); } catch e { print(type(e)); print(e.context); } print(K0.sdepth());" % n,
          "print(o.derives(K0)); print(o.derives(K%d)); print(K0.new().derives(K%d));" % (n // 2, n),
          "var bm = o.only0; print(bm());"]
    return "\n".join(L) + "\n"


def t_members(n, r):
    if n < 1 or n > 1000:
        return None
    methods = " ".join("fn m%d(self) { return %d + self.f%d; }" % (i, i, i % 7) for i in range(n))
    return "\n".join([
        "class K { #[constructor] fn new(self) { var i = 0; %s } %s }" % (" ".join("self.f%d = %d;" % (i, i * 10) for i in range(7)), methods),
        "var o = K.new(); print(o.m0()); print(o.m%d()); print(o.m%d());" % (n - 1, n // 2),
        "#[derive(K)] class D { #[constructor] fn new(self) { super.new(); } fn m%d(self) { return \"over\"; } }" % (n // 2),
        "var d = D.new(); print(d.m%d()); print(d.m%d()); print(d.m0());" % (n // 2, n - 1),
        "var i = 0; #[constructor(new)] class Bag {} var b = Bag.new();",
        "try { print(o.m%d()); } catch e { print(type(e)); print(e.context); }" % n,
    ]) + "\n"


def t_fields(n, r):
    sets = "\n".join("b.g%d = %d;" % (i, i) for i in range(min(n, 400)))
    return "\n".join([
        "#[constructor(new)] class Bag { fn g3(self) { return \"method g3\"; } }", "var b = Bag.new();", sets,
        "print(b.g0 + 0);" if n > 0 else "print(0);",
        ("print(b.g%d);" % (min(n, 400) - 1)) if n > 0 else "print(-1);",
        "try { print(b.g3); print(b.g3()); } catch e { print(type(e)); print(e.context); }",
        "try { print(b.g%d); } catch e { print(type(e)); print(e.context); }" % (min(n, 400) + 5),
        "var c = Bag.new(); try { print(c.g0); } catch e { print(type(e)); }",
    ]) + "\n"


def t_globals(n, r):
    if n > 3000:
        return None
    decl = "\n".join("var g%d = %d;" % (i, i) for i in range(n))
    return decl + "\n" + "\n".join([
        "fn sum() { return %s; }" % (" + ".join("g%d" % i for i in range(0, n, max(1, n // 40))) or "0"),
        "print(sum());", ("g%d = 1000; print(sum()); print(g%d);" % (0, n - 1)) if n else "print(0);",
        "try { print(g%d); } catch e { print(type(e)); print(e.context); }" % n,
    ]) + "\n"


def t_import_chain(n, r):
    if n > 70 or n < 1:
        return None
    mods = []
    for k in range(n):
        nxt = ("import \"chain%d\" as nx;\nfn depth() { return 1 + nx.depth(); }\n" % (k + 1)) if k + 1 < n else "fn depth() { return 1; }\n"
        mods.append(("chain%d" % k, "print(\"load %d\");\nvar own = %d;\n%s" % (k, k, nxt)))
    src = "\n".join([
        "try { import \"chain0\" as c0; print(c0.depth()); print(c0.own); } catch e { print(type(e)); print(e.context); }",
        "try { import \"chain%d\" as cl; print(cl.own); } catch e { print(type(e)); print(e.context); }" % (n - 1),
        "try { import \"chain0\" as again; print(again.own); } catch e { print(type(e)); print(e.context); }",
    ]) + "\n"
    return src, mods


def t_import_many(n, r):
    if n > 400 or n < 1:
        return None
    mods = [("many%d" % k, "var id = %d;\nfn get() { return id; }\nfn set(v) { id = v; }\n" % k) for k in range(n)]
    L = ["import \"many%d\" as mm%d;" % (k, k) for k in range(n)]
    L += ["mm0.set(\"changed\");", "import \"many0\" as z;", "print(z.get());", "print(mm%d.get());" % (n - 1), "import \"many%d\" as y; print(y == mm%d);" % (n // 2, n // 2),
          "var s = 0; %s print(s);" % " ".join("s += mm%d.id;" % k for k in range(1, n, max(1, n // 30)))]
    return "\n".join(L) + "\n", mods


def t_loop_trips(n, r):
    return "\n".join([
        "var s = 0; for i in 0..%d { if i %% 7 == 3 { continue; } s += i; } print(s);" % n,
        "var d = 0; for i in %d..0 { d += 1; } print(d);" % n,
        "var w = 0; var i = 0; while true { if i >= %d { break; } i += 1; w += i %% 3; } print(w);" % n,
        "var v = []; for i in 0..%d { var keep = i; v.push(|| keep); if v.len() > 5 { v = [v[5]]; } } print(v.len()); try { print(v[0]()); } catch e { print(type(e)); }" % n,
        "var cnt = 0; for a in 0..%d { for b in 0..3 { if b == 2 { break; } cnt += 1; } } print(cnt);" % min(n, 3000),
    ]) + "\n"


def t_adapter_depth(n, r):
    if n > 28:
        return None
    chain = "[1, 2, 3, 4, 5, 6].iter()" + "".join(".map(|x| x + %d)" % k if k % 2 == 0 else ".filter(|x| x != %d)" % (k + 3) for k in range(n))
    return "print(%s.collect());\nprint(%s.reduce(|a, b| a + b, 0));\nvar it = %s; var first = nil; for x in it { first = x; break; } print(first); print(it.collect());\n" % (chain, chain, chain)


def t_args(n, r):
    if n > 255:
        return None
    ps = ", ".join("a%d" % i for i in range(n))
    args = ", ".join(str(i) for i in range(n))
    return "\n".join([
        "fn f(%s) { return [%s]; }" % (ps, ", ".join("a%d" % i for i in (sorted(set([0, n // 2, n - 1])) if n else []))),
        "print(f(%s));" % args,
        "try { f(%s); } catch e { print(type(e)); print(e.context); }" % ", ".join(str(i) for i in range(n + 1)) if n < 255 else "print(\"skip\");",
        "try { f(%s); } catch e { print(type(e)); print(e.context); }" % ", ".join(str(i) for i in range(n - 1)) if n > 0 else "print(\"skip\");",
        "var g = |%s| %s; print(g(%s));" % (ps, " + ".join("a%d" % i for i in range(n)) or "0", args),
        "#[constructor(new)] class K { fn m(self%s) { return %s; } } print(K.new().m(%s)); var bm = K.new().m; print(bm(%s));" % (
            "".join(", a%d" % i for i in range(min(n, 254))), ("a%d" % (min(n, 254) - 1)) if n else "\"none\"",
            ", ".join(str(i) for i in range(min(n, 254))), ", ".join(str(i) for i in range(min(n, 254)))),
    ]) + "\n"


def t_statements(n, r):
    # n expression statements and declarations in one function and at top level
    if n > 3000:
        return None
    body = "\n".join("    x = x + %d;" % (i % 5) if i % 4 else "    { var y%d = x; x = y%d + 1; }" % (i, i) for i in range(n))
    return "fn f() {\n    var x = 0;\n%s\n    return x;\n}\nprint(f());\nvar z = 0;\n%s\nprint(z);\n" % (body, "\n".join("z += %d;" % (i % 3) for i in range(n)))


def t_range_many(n, r):
    if n > 600:
        return None
    return "\n".join([
        "var rs = []; var i = 0; while i < %d { rs.push(i..(i + 2)); i += 1; }" % n,
        "var s = 0; for q in rs { for x in q { s += x; } } print(s);",
        "var m = {}; for q in rs { m.insert(q, 1); } print(m.len());",
        "print(rs.len()); var a = 3..5; print(a == a); var lst = [0, 1, 2, 3, 4, 5, 6, 7, 8, 9]; print(lst[2..4]);",
    ]) + "\n"


TEMPLATES = [
    # (name, property, fn, lo, hi, model step budget)
    ("string-built", "C13", t_string_built, 0, 4097, 3000000),
    ("string-literal", "C11", t_string_literal, 0, 4097, 3000000),
    ("ident-length", "C11", t_ident_length, 1, 1025, 300000),
    ("vec-literal", "C13", t_vec_literal, 0, 255, 300000),
    ("vec-grown", "C18", t_vec_grown, 0, 4097, 3000000),
    ("map-grown", "C12", t_map_grown, 0, 4097, 3000000),
    ("map-literal", "C12", t_map_literal, 0, 255, 300000),
    ("call-depth", "C05", t_call_depth, 0, 75, 300000),
    ("handler-static", "C08", t_handler_static, 1, 60, 300000),
    ("handler-recursive", "C08", t_handler_recursive, 0, 58, 300000),
    ("try-loop", "C08", t_try_loop, 0, 10000, 3000000),
    ("fiber-chain", "C09", t_fiber_chain, 1, 150, 300000),
    ("fiber-yields", "C09", t_fiber_yields, 0, 10000, 3000000),
    ("captures", "C06", t_captures, 1, 250, 3000000),
    ("inherit-depth", "C07", t_inherit_depth, 1, 56, 300000),
    ("members", "C07", t_members, 1, 1000, 300000),
    ("fields", "C07", t_fields, 0, 4097, 300000),
    ("globals", "C06", t_globals, 0, 2000, 300000),
    ("import-chain", "C14", t_import_chain, 1, 70, 300000),
    ("import-many", "C14", t_import_many, 1, 300, 300000),
    ("loop-trips", "C05", t_loop_trips, 0, 10000, 3000000),
    ("adapter-depth", "C18", t_adapter_depth, 0, 28, 300000),
    ("args", "C05", t_args, 0, 255, 300000),
    ("statements", "C04", t_statements, 0, 2000, 3000000),
    ("range-many", "C12", t_range_many, 0, 600, 3000000),
]


def programs(prop, rng, quick):
    """program dicts for modelcheck.check_programs: every template owned by `prop` (all templates if prop is None)"""
    out = []
    for name, owner, fn, lo, hi, budget in TEMPLATES:
        if prop is not None and owner != prop:
            continue
        r = rng.fork(name)
        for n in _sizes(lo, hi, r, quick):
            got = fn(n, r.fork(str(n)))
            if got is None:
                continue
            src, mods = got if isinstance(got, tuple) else (got, [])
            out.append({"name": "scale/%s/%d" % (name, n), "steps": [("snip", src)], "mods": mods, "budget": budget, "scale": (name, n)})
    return out
