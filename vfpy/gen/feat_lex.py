"""compile errors located at tokens of every shape: string and interpolation tokens of 1-120 bytes whose byte and character
counts differ (ASCII, 2-, 3- and 4-byte characters), very long identifiers and numbers, tokens after comments and across
lines; the compiler must report an ordinary located error for each, whatever it does to quote the token"""

ALPH = ["a", "é", "こ", "\U0001f600", "ж", "ש"]


def sources(rng, quick):
    r = rng
    out = []
    lengths = list(range(1, 70)) + [80, 100, 120, 200, 255, 256, 300]
    if quick:
        lengths = r.sample(lengths, 30) + [38, 39, 40, 41, 42]
    for n in lengths:
        for ch in ALPH:
            text = ch * n
            mixed = "".join(r.choice(ALPH) for _ in range(n))
            for body in (text, mixed):
                out.append("var greetings = [\"hello\" \"%s\"];\n" % body)                 # missing comma before a string
                out.append("print(\"%s\" \"%s\");\n" % (body, body))                       # two strings in a row
                out.append("var s = \"%s\" ;;\nvar = \"%s\";\n" % (body, body))
                out.append("print(1);\n\"%s\" = 3;\n" % body)                             # assignment to a string
                out.append("var t = \"a${1 \"%s\"}b\";\n" % body)                          # string inside an interpolation, misplaced
                out.append("fn f(\"%s\") {}\n" % body)                                    # string where a name is expected
                out.append("import \"%s\" as \"%s\";\n" % (body, body))
                out.append("var k = {\"%s\" \"v\"};\n" % body)                             # missing colon
                out.append("var %s = 1;\nvar %s %s;\n" % ("i" + "d" * n, "i" + "d" * n, "i" + "d" * n))  # long identifiers
                out.append("var n = %s %s;\n" % ("1" * min(n, 300), "2" * min(n, 300)))
                out.append("// comment %s\nvar x = ;\n/ \"%s\"\n" % (body, body))
    return out
