"""Random program generator: one grammar-directed generator, many profiles (feature weights).
Programs are valid by construction (names declared before use, loops bounded, recursion bounded),
observable through print, and stay inside the constructs that are not listed as known-broken
(avoid tags from KNOWN_FINDINGS.txt)."""

PRELUDE_T = "fn t(k, v) { print(k); return v; }\n"
PRELUDE_MS = ("fn show_set(v) { print(\"<ms>\"); for x in v { print(x); } print(\"</ms>\"); }\n"
              "fn show_map(m) { print(m.len()); print(\"<ms>\"); for kv in m.items() { print(kv); } print(\"</ms>\"); }\n")

NUMS = ["0", "1", "2", "3", "7", "10", "255", "0.5", "1.5", "2.25", "100", "1000000", "3.14159", "0.1", "65536",
        "4294967296", "9007199254740993", "123456789012345680000", "0.000001"]
SMALL_INTS = ["0", "1", "2", "3", "4", "5"]
STRS = ['""', '"a"', '"b"', '"abc"', '"hello"', '"é"', '"a€b"', '"😀"', '"x y"', '"A1"', '"12"', '"3.5"', '"line"',
        '"\\t"', '"q\\"q"', '"\\$x"']
ARITH = ["+", "-", "*", "/", "%"]
BITS = ["&", "|", "^", "<<", ">>"]
CMP = ["<", ">", "<=", ">=", "==", "!="]


class Profile:
    def __init__(self, **kw):
        # statement weights
        self.w = dict(var=10, assign=6, print=10, if_=5, while_=3, for_=4, block=2, fn=4, call=4, lam=3, try_=0,
                      cls=0, fiber=0, map_=0, strop=0, brk=1, cont=1, ret=2, throw=0, itchain=0, imp=0, opassign=3, chain=0, tryfn=0, scope=0, clsmisc=0,
                      field=0, setitem=2)
        self.illtyped = 0          # percent of operand slots filled with a value of a random kind
        self.probe = 20            # percent of leaves wrapped in t(k, v) probes
        self.max_depth = 3         # statement nesting
        self.expr_depth = 3
        self.stmts = (4, 14)
        self.avoid = set()
        self.closures = 0          # percent chance to reference/assign outer-function variables when nested
        self.uncaught = 0          # percent of programs ending with a deliberately uncaught error
        for k, v in kw.items():
            if k == "w":
                self.w.update(v)
            else:
                setattr(self, k, v)


class Var:
    __slots__ = ("name", "kind", "depth", "const", "fdepth")

    def __init__(self, name, kind, depth, fdepth, const=False):
        self.name = name
        self.kind = kind      # num str bool vec tuple map nil fn:<arity> inst:<class> class:<name> fiber any iter
        self.depth = depth
        self.fdepth = fdepth
        self.const = const


class ClassInfo:
    def __init__(self, name, parent, fields, methods, statics, ctor, ctor_arity):
        self.name = name
        self.parent = parent
        self.fields = fields      # field names always set by the constructor
        self.methods = methods    # name -> arity (excluding self)
        self.statics = statics    # name -> arity
        self.ctor = ctor
        self.ctor_arity = ctor_arity

    def all_methods(self):
        m = {}
        if self.parent is not None:
            m.update(self.parent.all_methods())
        m.update(self.methods)
        return m

    def all_fields(self):
        f = list(self.parent.all_fields()) if self.parent is not None else []
        for x in self.fields:
            if x not in f:
                f.append(x)
        return f


class Gen:
    def __init__(self, rng, profile):
        self.r = rng
        self.p = profile
        self.counter = 0
        self.scopes = [[]]          # list of lists of Var
        self.fdepth = 0             # function nesting depth
        self.loop = [0]             # loop nesting per function
        self.in_try = [0]
        self.in_finally = [0]
        self.in_class_method = []   # stack of (ClassInfo, kind)
        self.classes = []
        self.uses_t = False
        self.uses_ms = False
        self.modules = []
        self.budget = 400           # rough bound on generated statements
        self.fn_kind = ["script"]
        self.blocked = set()        # kinds of variables that may not be read right now (growth guard)

    # ------------------------------------------------------------------ helpers
    def fresh(self, prefix="v"):
        self.counter += 1
        return "%s%d" % (prefix, self.counter)

    def declare(self, name, kind, const=False):
        v = Var(name, kind, len(self.scopes), self.fdepth, const)
        self.scopes[-1].append(v)
        return v

    def visible(self, pred=None, assignable=False):
        out = []
        seen = set()
        for sc in reversed(self.scopes):
            for v in reversed(sc):
                if v.name in seen:
                    continue
                seen.add(v.name)
                if v.fdepth != self.fdepth and v.fdepth != 0:
                    # a local of an enclosing function: capture, governed by the closures knob
                    if not self.r.chance(max(self.p.closures, 15)):
                        continue
                if assignable and v.const:
                    continue
                if pred is None or pred(v):
                    out.append(v)
        return out

    def pick_var(self, kind, assignable=False):
        if kind in self.blocked:
            return None
        vs = self.visible(lambda v: v.kind == kind, assignable)
        return self.r.choice(vs) if vs else None

    def ind(self, lines, n=1):
        return [("    " * n) + l for l in lines]

    # ------------------------------------------------------------------ expressions
    def probe(self, text):
        if self.r.chance(self.p.probe):
            self.uses_t = True
            self.counter += 1
            return "t(\"p%d\", %s)" % (self.counter, text)
        return text

    def any_kind(self):
        if getattr(self, "no_addr", 0):
            # inside text that is measured or compared later: no value whose text contains an address
            return self.r.weighted([("num", 10), ("str", 6), ("bool", 4), ("nil", 2), ("vec", 3), ("tuple", 2), ("range", 1)])
        return self.r.weighted([("num", 10), ("str", 6), ("bool", 4), ("nil", 2), ("vec", 3), ("tuple", 2), ("map", 1),
                                ("fn:0", 1), ("range", 1)])

    def expr(self, kind, depth=None):
        if getattr(self, "safe_only", False):
            # a context in which nothing may raise: literals and plain variable reads only
            v = self.pick_var(kind) if kind in ("num", "str", "bool", "vec", "tuple") else None
            if v is not None and self.r.chance(50):
                return v.name
            return {"num": self.r.choice(NUMS), "str": self.r.choice(STRS), "bool": self.r.choice(["true", "false"]),
                    "vec": "[1, \"s\"]", "tuple": "(1, 2)", "nil": "nil"}.get(kind, "nil")
        if depth is None:
            depth = self.p.expr_depth
        if self.p.illtyped and self.r.chance(self.p.illtyped):
            kind = self.any_kind()
        m = getattr(self, "e_" + kind.split(":")[0], None)
        if m is None:
            return self.e_any(depth)
        return m(depth) if ":" not in kind else m(depth, kind.split(":", 1)[1])

    def e_any(self, depth):
        return self.expr(self.any_kind(), depth)

    def e_nil(self, depth):
        return "nil"

    def e_num(self, depth):
        r = self.r
        if depth <= 0 or r.chance(30):
            v = self.pick_var("num")
            if v is not None and r.chance(60):
                return self.probe(v.name)
            return self.probe(r.choice(NUMS))
        c = r.below(100)
        if c < 40:
            return "%s %s %s" % (self.paren(self.expr("num", depth - 1)), r.choice(ARITH), self.paren(self.expr("num", depth - 1)))
        if c < 52:
            return "%s %s %s" % (self.paren(self.expr("num", depth - 1)), r.choice(BITS), self.paren(self.expr("num", depth - 1)))
        if c < 60:
            return "%s%s" % (r.choice(["-", "~", "- -"]), self.paren(self.expr("num", depth - 1)))
        if c < 68:
            return "%s.len()" % self.paren(self.expr(r.choice(["str", "vec", "tuple"]), depth - 1))
        if c < 74:
            v = self.expr("vec", 0)
            return "%s[%s]" % (self.paren(v), r.choice(["0", "-1"])) if v.startswith("[") and v != "[]" and "," in v and self.all_num_vec(v) else self.probe(r.choice(NUMS))
        if c < 80:
            fv = self.pick_callable()
            if fv is not None:
                return self.call_of(fv, depth - 1)
        if c < 88:
            return "(%s && %s)" % (self.expr("num", depth - 1), self.expr("num", depth - 1)) if r.chance(50) else \
                   "(%s || %s)" % (self.expr("nil", 0), self.expr("num", depth - 1))
        return self.probe(r.choice(NUMS))

    def all_num_vec(self, text):
        return all(ch in "0123456789., []-" for ch in text)

    def paren(self, e):
        return e if e.replace("_", "a").replace(".", "a").isalnum() or (e.startswith("t(") and e.count("(") == 1) else "(" + e + ")"

    def e_str(self, depth):
        r = self.r
        if depth <= 0 or r.chance(30):
            v = self.pick_var("str")
            if v is not None and r.chance(60):
                return self.probe(v.name)
            return self.probe(r.choice(STRS))
        c = r.below(100)
        if c < 30:
            return "%s + %s" % (self.paren(self.expr("str", depth - 1)), self.paren(self.expr("str", depth - 1)))
        if c < 60:
            parts = []
            self.no_addr = getattr(self, "no_addr", 0) + 1
            for _ in range(r.range(1, 3)):
                parts.append(r.choice(["", "a", " ", "x=", "é"]))
                inner = self.expr(r.choice(["num", "str", "bool", "nil", "vec", "tuple"]), depth - 1)
                if '"' in inner:
                    inner = self.expr("num", 0)
                    if '"' in inner:
                        inner = "1"
                parts.append("${" + inner + "}")
            self.no_addr -= 1
            parts.append(r.choice(["", "!", " end"]))
            return '"' + "".join(parts) + '"'
        if c < 70:
            self.no_addr = getattr(self, "no_addr", 0) + 1
            try:
                return "String.from(%s)" % self.expr(r.choice(["num", "bool", "nil", "str", "vec"]), depth - 1)
            finally:
                self.no_addr -= 1
        if c < 80:
            return r.choice(['"abcdef"[%s]' % r.choice(["0", "1", "-1", "0..2", "0..0", "1..3", "-2..-1", "2..6"]),
                             '"héllo"[%s]' % r.choice(["0", "0..1", "1..3", "3..6", "-1"]),
                             '"a€b😀c"[%s]' % r.choice(["0", "1..4", "4", "5..9", "0..5", "-1"])])
        if c < 88:
            return "%s.replace(%s, %s)" % (self.paren(self.expr("str", depth - 1)), r.choice(['"a"', '"b"', '"l"']), r.choice(['"X"', '""', '"é"']))
        return self.probe(r.choice(STRS))

    def e_bool(self, depth):
        r = self.r
        if depth <= 0 or r.chance(25):
            v = self.pick_var("bool")
            if v is not None and r.chance(50):
                return self.probe(v.name)
            return self.probe(r.choice(["true", "false"]))
        c = r.below(100)
        if c < 35:
            k = r.choice(["num", "num", "str", "bool", "nil"])
            op = r.choice(CMP if k == "num" else ["==", "!="])
            return "%s %s %s" % (self.paren(self.expr(k, depth - 1)), op, self.paren(self.expr(k, depth - 1)))
        if c < 50:
            return "!%s" % self.paren(self.expr(r.choice(["bool", "num", "nil", "str"]), depth - 1))
        if c < 70:
            return "%s %s %s" % (self.paren(self.expr("bool", depth - 1)), r.choice(["&&", "||"]), self.paren(self.expr("bool", depth - 1)))
        if c < 80:
            return "%s == %s" % (self.paren(self.expr(r.choice(["vec", "tuple"]), depth - 1)), self.paren(self.expr(r.choice(["vec", "tuple"]), depth - 1)))
        if c < 88:
            return "%s.%s(%s)" % (self.paren(self.expr("str", depth - 1)), r.choice(["starts_with", "ends_with"]), self.expr("str", 0))
        return self.probe(r.choice(["true", "false"]))

    def e_vec(self, depth):
        r = self.r
        if depth <= 0 or r.chance(30):
            v = self.pick_var("vec")
            if v is not None and r.chance(60):
                return v.name
        n = r.range(0, 4)
        return "[" + ", ".join(self.expr(r.choice(["num", "num", "str", "bool", "nil"]) if depth <= 1 else self.any_kind_simple(), depth - 1) for _ in range(n)) + "]"

    def any_kind_simple(self):
        return self.r.weighted([("num", 10), ("str", 6), ("bool", 3), ("nil", 2), ("vec", 2), ("tuple", 2)])

    def e_tuple(self, depth):
        r = self.r
        if depth <= 0 or r.chance(30):
            v = self.pick_var("tuple")
            if v is not None and r.chance(60):
                return v.name
        n = r.range(0, 3)
        items = [self.expr(self.any_kind_simple() if depth > 1 else r.choice(["num", "str", "bool"]), depth - 1) for _ in range(n)]
        if n == 1:
            return "(" + items[0] + ",)"
        return "(" + ", ".join(items) + ")"

    def e_map(self, depth):
        v = self.pick_var("map")
        if v is not None and self.r.chance(60):
            return v.name
        n = self.r.range(0, 1)     # printing a map with several entries has no defined order
        keys = self.r.sample(['"a"', '"b"', "1", "2", "true", "nil", "(1, 2)", '"k"'], n)
        return "{" + ", ".join("%s: %s" % (k, self.expr(self.r.choice(["num", "str", "bool"]), 0)) for k in keys) + "}"

    def e_range(self, depth):
        a = self.r.choice(["0", "1", "2", "-1", "5"])
        b = self.r.choice(["0", "3", "4", "-2", "6"])
        return "%s..%s" % (a, b)

    def e_fn(self, depth, arity="0"):
        n = int(arity)
        params = [self.fresh("a") for _ in range(n)]
        self.push_fn("function")
        for p in params:
            self.declare(p, "num")
        body = self.expr(self.r.choice(["num", "str", "bool"]), max(depth - 1, 1))
        if body.startswith("{"):
            body = "(" + body + ")"
        if self.p.closures and self.r.chance(self.p.closures) and not getattr(self, "safe_only", False):
            tv = self.visible(lambda v: v.kind == "num", assignable=True)
            if tv:
                v = self.r.choice(tv)
                body = "{ %s = %s + %s; return %s; }" % (v.name, v.name, self.r.choice(["1", "2", "0.5"]), body)
        self.pop_fn()
        return ("|%s| " % ", ".join(params) if n else "|| ") + body

    def pick_callable(self):
        if getattr(self, "no_calls", False):
            return None
        vs = self.visible(lambda v: v.kind.startswith("fn:"))
        return self.r.choice(vs) if vs else None

    def call_of(self, v, depth):
        n = int(v.kind.split(":")[1])
        return "%s(%s)" % (v.name, ", ".join(self.expr("num", depth) for _ in range(n)))

    # ------------------------------------------------------------------ function context
    def push_fn(self, kind):
        self.fdepth += 1
        self.scopes.append([])
        self.loop.append(0)
        self.in_try.append(0)
        self.in_finally.append(0)
        self.fn_kind.append(kind)
        if not hasattr(self, "try_ctx"):
            self.try_ctx = [[]]
        self.try_ctx.append([])

    def pop_fn(self):
        self.try_ctx.pop()
        self.fdepth -= 1
        self.scopes.pop()
        self.loop.pop()
        self.in_try.pop()
        self.in_finally.pop()
        self.fn_kind.pop()

    # ------------------------------------------------------------------ statements
    def block(self, depth, nmin=1, nmax=4):
        self.scopes.append([])
        lines = []
        for _ in range(self.r.range(nmin, nmax)):
            lines.extend(self.stmt(depth))
        self.scopes.pop()
        return lines

    def stmt(self, depth):
        self.budget -= 1
        w = dict(self.p.w)
        if depth <= 0 or self.budget <= 0:
            for k in ("if_", "while_", "for_", "block", "fn", "try_", "cls", "fiber"):
                w[k] = 0
        av = self.p.avoid
        tstack = getattr(self, "try_ctx", [[]])[-1]
        in_try = bool(tstack)
        in_fin = any(e["part"] == "finally" for e in tstack)
        if self.loop[-1] == 0:
            w["brk"] = 0
            w["cont"] = 0
        if in_try and "exc.break_in_try" in av and not self.loop_started_inside_try():
            w["brk"] = 0
            w["cont"] = 0
        if self.fdepth == 0:
            w["ret"] = 0
        elif in_try:
            top = tstack[-1]
            if in_fin and "exc.return_in_finally" in av:
                w["ret"] = 0
            elif len(tstack) > 1 and "exc.nested_try_return" in av:
                w["ret"] = 0
            elif not top["has_finally"] and "exc.return_in_try_no_finally" in av:
                w["ret"] = 0
            elif top["has_finally"] and "exc.return_in_try_with_finally" in av:
                w["ret"] = 0
            elif top["part"] == "catch" and "exc.return_in_catch" in av:
                w["ret"] = 0
        in_catch_fin = any(e["part"] == "catch" and e["has_finally"] for e in tstack)
        self.no_calls = False
        if (in_fin and "exc.throw_in_finally" in av) or (in_catch_fin and "exc.throw_in_catch_with_finally" in av):
            # nothing in here may raise: the pending finally / the rest of the finally would be skipped
            for k in ("throw", "call", "try_", "fiber", "chain", "setitem", "strop", "map_", "itchain", "field", "cls", "for_",
                      "opassign", "fn", "lam"):
                w[k] = 0
            self.no_calls = True
        self.safe_only = self.no_calls
        if in_fin:
            if "exc.throw_in_finally" in av:
                w["throw"] = 0
            if "exc.var_in_finally" in av:
                for k in ("var", "fn", "cls", "for_", "block", "lam", "while_", "if_", "fiber", "map_", "itchain", "strop"):
                    w[k] = 0
            if "exc.call_in_finally" in av:
                w["call"] = 0
        if self.fdepth > 0 and self.in_class_method:
            w["cls"] = 0
        self.cur_w = w
        kind = self.r.weighted([(k, v) for k, v in sorted(w.items()) if v > 0])
        return getattr(self, "s_" + kind)(depth)

    def fallback(self, depth):
        if getattr(self, "cur_w", {}).get("var", 1) > 0:
            return self.s_var(depth)
        return self.s_print(depth)

    def try_snapshot(self):
        st = getattr(self, "try_ctx", [[]])[-1]
        return tuple((id(e), e["part"]) for e in st)

    def loop_started_inside_try(self):
        """no try boundary between the innermost loop and here (so break/continue stay inside)"""
        marks = getattr(self, "loop_marks", [])
        return bool(marks) and marks[-1] == self.try_snapshot()

    def enter_loop(self):
        if not hasattr(self, "loop_marks"):
            self.loop_marks = []
        self.loop_marks.append(self.try_snapshot())
        self.loop[-1] += 1

    def leave_loop(self):
        self.loop_marks.pop()
        self.loop[-1] -= 1

    def s_var(self, depth):
        kind = self.r.weighted([("num", 10), ("str", 6), ("bool", 3), ("vec", 4), ("tuple", 2), ("nil", 1)])
        name = self.fresh()
        e = self.expr(kind)
        self.declare(name, kind)
        return ["var %s = %s;" % (name, e)]

    def s_assign(self, depth):
        vs = self.visible(lambda v: v.kind in ("num", "str", "bool", "vec", "tuple"), assignable=True)
        if not vs:
            return self.fallback(depth)
        v = self.r.choice(vs)
        return ["%s = %s;" % (v.name, self.guarded(v.kind))]

    def guarded(self, kind, depth=None):
        """an expression for an assignment: inside loops and functions it must not read variables of
        growing kinds, or sizes double on every iteration"""
        if kind in ("str", "vec", "tuple") and (self.loop[-1] > 0 or self.fdepth > 0):
            old = self.blocked
            self.blocked = old | {"str", "vec", "tuple"}
            try:
                return self.expr(kind, depth)
            finally:
                self.blocked = old
        return self.expr(kind, depth)

    def s_opassign(self, depth):
        vs = self.visible(lambda v: v.kind in ("num", "str"), assignable=True)
        if not vs:
            return self.fallback(depth)
        v = self.r.choice(vs)
        if v.kind == "str":
            return ["%s += %s;" % (v.name, self.guarded("str", 1))]
        op = self.r.choice(["+=", "-=", "*=", "/=", "%=", "&=", "|=", "^=", "<<=", ">>="])
        rhs = self.expr("num", 1)
        # the right side of a compound assignment is parsed above `||`, `&&`, `==`, `<`: keep it simple there
        if any(tok in rhs for tok in ("&&", "||", "==", "!=", "<", ">")):
            rhs = self.r.choice(NUMS)
        return ["%s %s %s;" % (v.name, op, rhs)]

    def s_setitem(self, depth):
        v = self.pick_var("vec")
        if v is None:
            return self.fallback(depth)
        idx = self.r.choice(["0", "1", "-1", "2"])
        return ["if %s.len() > 2 { %s[%s] = %s; }" % (v.name, v.name, idx, self.expr(self.r.choice(["num", "str"]), 1))]

    def s_print(self, depth):
        kind = self.r.weighted([("num", 10), ("str", 8), ("bool", 5), ("vec", 4), ("tuple", 3), ("nil", 1)])
        return ["print(%s);" % self.expr(kind)]

    def s_if_(self, depth):
        lines = ["if %s {" % self.expr(self.r.choice(["bool", "bool", "num", "nil", "str"]), 2)]
        lines += self.ind(self.block(depth - 1))
        if self.r.chance(50):
            if self.r.chance(30):
                lines.append("} else if %s {" % self.expr("bool", 2))
                lines += self.ind(self.block(depth - 1))
            lines.append("} else {")
            lines += self.ind(self.block(depth - 1))
        lines.append("}")
        return lines

    def s_while_(self, depth):
        i = self.fresh("i")
        n = self.r.range(0, 4)
        self.scopes.append([])
        self.declare(i, "num", const=True)
        self.enter_loop()
        body = ["%s = %s + 1;" % (i, i)] + self.block(depth - 1)
        self.leave_loop()
        self.scopes.pop()
        return ["var %s = 0;" % i, "while %s < %d {" % (i, n)] + self.ind(body) + ["}"]

    def s_for_(self, depth):
        x = self.fresh("x")
        c = self.r.below(100)
        if c < 35:
            it, kind = "%s..%s" % (self.r.choice(["0", "1", "3"]), self.r.choice(["0", "2", "4", "-1"])), "num"
        elif c < 60:
            it, kind = "[" + ", ".join(self.expr("num", 1) for _ in range(self.r.range(0, 3))) + "]", "num"
        elif c < 75:
            it, kind = self.r.choice(['"ab"', '"héy"', '""', '"😀x"']), "str"
        elif c < 88:
            it, kind = "(" + ", ".join(self.expr("str", 0) for _ in range(2)) + ")", "str"
        else:
            it, kind = "[1, 2, 3].iter().map(|q| q * 2)", "num"
        self.scopes.append([])
        self.declare(x, kind, const=True)
        self.enter_loop()
        body = self.block(depth - 1)
        self.leave_loop()
        self.scopes.pop()
        return ["for %s in %s {" % (x, it)] + self.ind(body) + ["}"]

    def s_block(self, depth):
        return ["{"] + self.ind(self.block(depth - 1)) + ["}"]

    def s_brk(self, depth):
        return ["if %s { break; }" % self.expr("bool", 1)]

    def s_cont(self, depth):
        return ["if %s { continue; }" % self.expr("bool", 1)]

    def s_ret(self, depth):
        if self.fn_kind[-1] == "initialiser":
            return ["if %s { return; }" % self.expr("bool", 1)]
        return ["if %s { return %s; }" % (self.expr("bool", 1), self.expr(self.r.choice(["num", "str"]), 2))]

    def s_fn(self, depth):
        name = self.fresh("f")
        n = self.r.range(0, 3)
        params = [self.fresh("a") for _ in range(n)]
        self.push_fn("function")
        for p in params:
            self.declare(p, "num")
        body = self.block(depth - 1, 1, 4)
        tail = self.r.below(100)
        ret = "return %s;" % self.expr(self.r.choice(["num", "str", "bool"]), 2)
        if tail < 70:
            body.append(ret)
        elif tail < 80:
            body.append("if %s { %s }" % (self.expr("bool", 1), ret))            # may fall off the end: implicit nil
        elif tail < 90:
            body.append("if %s { print(\"no return here\"); } else { %s }" % (self.expr("bool", 1), ret))
        else:
            body.append("if %s { %s } else { print(\"falls off\"); }" % (self.expr("bool", 1), ret))
        self.pop_fn()
        self.declare(name, "fn:%d" % n, const=True)   # after the body: no recursion
        return ["fn %s(%s) {" % (name, ", ".join(params))] + self.ind(body) + ["}"]

    def s_call(self, depth):
        fv = self.pick_callable()
        if fv is None:
            return self.s_print(depth)
        return ["print(%s);" % self.call_of(fv, 1)]

    def s_lam(self, depth):
        name = self.fresh("g")
        n = self.r.range(0, 2)
        e = self.e_fn(2, str(n))
        self.declare(name, "fn:%d" % n, const=True)
        return ["var %s = %s;" % (name, e)]

    def chain(self, n=None):
        """operators mixed WITHOUT parentheses: grouping is decided by precedence and associativity"""
        r = self.r
        n = n or r.range(2, 6)
        ops_num = ["+", "-", "*", "/", "%", "&", "|", "^", "<<", ">>"]
        ops_all = ops_num + ["<", ">", "<=", ">=", "==", "!=", "&&", "||", ".."]
        pool = ops_num if r.chance(55) else ops_all
        parts = []
        for i in range(n):
            leaf = r.weighted([(lambda: r.choice(["1", "2", "3", "5", "6", "7", "12", "0", "0.5", "255", "1024"]), 10),
                               (lambda: (self.pick_var("num") or Var("1", "num", 0, 0)).name, 4),
                               (lambda: r.choice(["true", "false", "nil"]), 1 if pool is ops_all else 0)])()
            if r.chance(18):
                leaf = r.choice(["-", "~", "!", "- -", "-~"]) + leaf
            if r.chance(self.p.probe // 2):
                self.uses_t = True
                self.counter += 1
                leaf = "t(\"c%d\", %s)" % (self.counter, leaf)
            parts.append(leaf)
            if i < n - 1:
                parts.append(r.choice(pool))
        return " ".join(parts)

    def s_chain(self, depth):
        r = self.r
        c = r.below(100)
        if c < 60:
            body = "print(%s);" % self.chain()
        elif c < 80:
            v = self.pick_var("num", assignable=True)
            if v is None:
                body = "print(%s);" % self.chain()
            else:
                op = r.choice(["=", "+=", "-=", "*=", "/=", "%=", "&=", "|=", "^=", "<<=", ">>="])
                body = "print(%s %s %s);" % (v.name, op, self.chain(r.range(1, 4))) if r.chance(40) else \
                       "%s %s %s; print(%s);" % (v.name, op, self.chain(r.range(1, 4)), v.name)
        else:
            body = "print([%s, %s]);" % (self.chain(r.range(1, 3)), self.chain(r.range(2, 4)))
        if self.in_finally[-1] > 0 or self.in_try[-1] > 0:
            return [body] if "&&" not in body else ["print(1);"]
        return ["try { %s } catch e { print(type(e)); }" % body]

    def s_throw(self, depth):
        return ["if %s { throw %s; }" % (self.expr("bool", 1), self.expr(self.r.choice(["num", "str", "vec"]), 1))]

    # others (try_, cls, fiber, map_, strop, itchain, imp, field) are provided by the feature mixins
    def s_try_(self, depth):
        from . import feat_exc
        return feat_exc.s_try(self, depth)

    def s_tryfn(self, depth):
        from . import feat_exc
        tstack = getattr(self, "try_ctx", [[]])[-1]
        if tstack or self.fdepth > 1:
            return self.s_print(depth)
        return feat_exc.s_tryfn(self, depth)

    def s_scope(self, depth):
        from . import feat_scope
        tstack = getattr(self, "try_ctx", [[]])[-1]
        if tstack:
            return self.s_print(depth)
        f = self.r.choice([feat_scope.s_counter, feat_scope.s_closure_vec, feat_scope.s_shared, feat_scope.s_levels,
                           feat_scope.s_exitpaths, feat_scope.s_shadow, feat_scope.s_exitmatrix, feat_scope.s_exitmatrix, feat_scope.s_fiber_cells, feat_scope.s_selfname, feat_scope.s_midshadow])
        return f(self, depth)

    def s_cls(self, depth):
        from . import feat_cls
        return feat_cls.s_cls(self, depth)

    def s_clsmisc(self, depth):
        from . import feat_cls
        return feat_cls.s_clsmisc(self, depth)

    def s_field(self, depth):
        from . import feat_cls
        return feat_cls.s_field(self, depth)

    def s_fiber(self, depth):
        from . import feat_fiber
        return feat_fiber.s_fiber(self, depth)

    def s_map_(self, depth):
        from . import feat_data
        return feat_data.s_map(self, depth)

    def s_strop(self, depth):
        from . import feat_data
        return feat_data.s_strop(self, depth)

    def s_itchain(self, depth):
        from . import feat_data
        return feat_data.s_itchain(self, depth)

    def s_imp(self, depth):
        return self.s_print(depth)

    # ------------------------------------------------------------------ program
    def program(self):
        lines = []
        lo, hi = self.p.stmts
        for _ in range(self.r.range(lo, hi)):
            lines.extend(self.stmt(self.p.max_depth))
        if self.p.uncaught and self.r.chance(self.p.uncaught):
            lines.append(self.r.choice(["nil + 1;", "undefined_name;", "[1][5];", "throw \"end\";", "\"a\".nope();",
                                        "1 < \"x\";", "[].pop();", "throw [1, 2];", "(1..2)[0];", "nil();"]))
        pre = ""
        if self.uses_t:
            pre += PRELUDE_T
        if self.uses_ms:
            pre += PRELUDE_MS
        return pre + "\n".join(lines) + "\n"


def generate(rng, profile):
    g = Gen(rng, profile)
    src = g.program()
    return src, g.modules
