"""a statement that fails must leave no trace: every failing statement form is run inside try/catch (so one program can
look at the aftermath) and followed by probes of everything it might have touched - the name it assigned to, the
container it indexed, the object whose field it set, the map it inserted into, the variables declared around it"""


FORMS = [
    # (setup, failing statement, probes)
    ("", "ghost%(k)d = 10;", ["ghost%(k)d"]),
    ("", "ghost%(k)d += 1;", ["ghost%(k)d"]),
    ("", "ghost%(k)d = ghost%(k)d;", ["ghost%(k)d"]),
    ("fn setg%(k)d() { ghost%(k)d = 10; return 1; }", "setg%(k)d();", ["ghost%(k)d"]),
    ("var fbg%(k)d = Fiber.new(|| { try { ghost%(k)d = 10; } catch e { return type(e); } return 1; });", "print(fbg%(k)d.call()); nil + 1;", ["ghost%(k)d", "fbg%(k)d.has_finished()"]),
    ("#[constructor(new)] class G%(k)d { fn set(self) { ghost%(k)d = self; return 1; } }", "G%(k)d.new().set();", ["ghost%(k)d"]),
    ("var v%(k)d = [1, 2, 3];", "v%(k)d[3] = 9;", ["v%(k)d"]),
    ("var v%(k)d = [1, 2, 3];", "v%(k)d[0] = nil + 1;", ["v%(k)d"]),
    ("var v%(k)d = [1, 2, 3];", "v%(k)d[\"x\"] = 9;", ["v%(k)d"]),
    ("var v%(k)d = [1, 2, 3];", "v%(k)d[v%(k)d] = 9;", ["v%(k)d.len()"]),
    ("var v%(k)d = [1, 2, 3];", "v%(k)d[(v%(k)d, 1)] = 9;", ["v%(k)d.len()"]),
    ("var v%(k)d = [1, 2, 3];", "v%(k)d.push();", ["v%(k)d"]),
    ("var v%(k)d = [];", "v%(k)d.pop();", ["v%(k)d"]),
    ("var t%(k)d = (1, 2);", "t%(k)d[0] = 5;", ["t%(k)d"]),
    ("var s%(k)d = \"abc\";", "s%(k)d[0] = \"z\";", ["s%(k)d"]),
    ("var m%(k)d = {1: 2};", "m%(k)d.insert([1], 3);", ["m%(k)d.len()", "m%(k)d.get(1)"]),
    ("var m%(k)d = {1: 2};", "m%(k)d.insert((1, [2]), 3);", ["m%(k)d.len()", "m%(k)d.keys()"]),
    ("var m%(k)d = {1: 2};", "m%(k)d.insert(1);", ["m%(k)d.len()", "m%(k)d.get(1)"]),
    ("var m%(k)d = {1: 2};", "m%(k)d.remove([1]);", ["m%(k)d.len()"]),
    ("#[constructor(new)] class O%(k)d {}\nvar o%(k)d = O%(k)d.new();\no%(k)d.f = 1;", "o%(k)d.f = nil + 1;", ["o%(k)d.f"]),
    ("#[constructor(new)] class O%(k)d {}\nvar o%(k)d = O%(k)d.new();", "o%(k)d.g = undefined_name;", ["o%(k)d.g"]),
    ("var n%(k)d = 5;", "n%(k)d.f = 1;", ["n%(k)d"]),
    ("var n%(k)d = 5;", "n%(k)d += \"s\";", ["n%(k)d"]),
    ("var n%(k)d = \"s\";", "n%(k)d -= 1;", ["n%(k)d"]),
    ("var n%(k)d = [1];", "n%(k)d[0] = n%(k)d[0] + nil;", ["n%(k)d"]),
    ("var c%(k)d = 0;\nfn bump%(k)d() { c%(k)d = c%(k)d + 1; return c%(k)d; }", "var pair%(k)d = [bump%(k)d(), nil + 1, bump%(k)d()];", ["c%(k)d"]),
    ("var c%(k)d = 0;\nfn bump%(k)d() { c%(k)d = c%(k)d + 1; return c%(k)d; }", "print(bump%(k)d() + (bump%(k)d() + nil) + bump%(k)d());", ["c%(k)d"]),
    ("var c%(k)d = 0;\nfn bump%(k)d() { c%(k)d = c%(k)d + 1; return c%(k)d; }", "var mm%(k)d = {bump%(k)d(): 1, [bump%(k)d()]: 2, bump%(k)d(): 3};", ["c%(k)d"]),
    ("", "import \"no_such_module_%(k)d\" as nm%(k)d;", ["nm%(k)d"]),
    ("var five%(k)d = 5;", "#[derive(five%(k)d)] class Bad%(k)d {}", ["Bad%(k)d"]),
    ("var keepcls%(k)d = 1;", "class keepcls%(k)d_x { fn m(self) { return undefined_name; } }\nkeepcls%(k)d_x.m(1);", ["keepcls%(k)d"]),
]


def program(rng, n=None):
    r = rng
    L = ["var before = \"before\";"]
    picks = [r.choice(FORMS) for _ in range(n or r.range(3, 8))]
    for k, (setup, stmt, probes) in enumerate(picks):
        d = {"k": k}
        if setup:
            L.append(setup % d)
        where = r.below(4)
        body = stmt % d
        if where == 0:
            L.append("try { %s print(\"not reached\"); } catch e { print(type(e)); print(e.context); }" % body)
        elif where == 1:
            L.append("fn run%d() { var local = \"L%d\"; try { %s } catch e { print([local, type(e)]); } return local; }\nprint(run%d());" % (k, k, body, k))
        elif where == 2:
            L.append("try { var inner = %d; %s print(inner); } catch e { print(e.context); } finally { print(\"fin %d\"); }" % (k, body, k))
        else:
            L.append("for turn in 0..2 { try { %s } catch e { print([turn, type(e)]); } }" % body)
        for p in probes:
            L.append("try { print(%s); } catch e { print(type(e)); print(e.context); }" % (p % d))
    L.append("print(before);")
    return "\n".join(L) + "\n"
