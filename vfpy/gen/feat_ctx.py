"""Context nesting ("interplay"): take a complete generated program of any profile and move its body into a
stack of two to four enclosing constructs chosen at random - function, lambda, method, constructor, static
method, method reached through `super`, bound method kept in a field, fiber (plain, resumed after a yield,
started from inside a try block), try / catch / finally positions, loops over a vector, a range, an iterator
adapter chain and a user iterator, the callback of `map` / `reduce`, an imported module's top level or one of
its functions.  The reference model decides what the nested program must print, so nothing is assumed about
what nesting preserves; the point is that every feature generator's programs now also run with their frames,
handlers, captured variables and loop state sitting on top of (and inside) the machinery of other features.

Known-finding avoid tags are respected: a body is placed inside a finally block only where no exception passes
through that block (reached by falling out of the try block, or with the function's return waiting), and no context
adds a `return`, `break` or `continue` that would leave a try block without a finally."""
import re

PRELUDE_RE = re.compile(r"^(fn t\(k, v\) \{ print\(k\); return v; \}\n)?(fn show_set.*\n)?(fn show_map.*\n)?")


def _ind(lines, n=1):
    pad = "    " * n
    return [pad + l if l else l for l in lines]


def c_block(b, u, r, mods):
    return ["{"] + _ind(b) + ["}"]


def c_if(b, u, r, mods):
    if r.chance(50):
        return ["if %d == %d {" % (u, u)] + _ind(b) + ["}"]
    return ["if nil {", "    print(\"ctx-never\");", "} else {"] + _ind(b) + ["}"]


def c_fn(b, u, r, mods):
    return ["fn cw%d() {" % u] + _ind(b) + ["}", "cw%d();" % u]


def c_fn_args(b, u, r, mods):
    # locals below the body's own: parameters and a captured counter
    return (["fn cw%d(ca%d, cb%d) {" % (u, u, u), "    var cc%d = [ca%d];" % (u, u), "    var cinc%d = || { cc%d.push(cb%d); return cc%d.len(); };" % (u, u, u, u),
            "    cinc%d();" % u] + _ind(b) + ["    print(\"ctx-args ${ca%d} ${cinc%d()}\");" % (u, u), "}", "cw%d(%d, \"cb\");" % (u, u)])


def c_lambda(b, u, r, mods):
    return ["var cl%d = || {" % u] + _ind(b) + ["};", "cl%d();" % u]


def c_fiber(b, u, r, mods):
    return ["var cf%d = Fiber.new(|| {" % u] + _ind(b) + ["});", "cf%d.call();" % u, "print(cf%d.has_finished());" % u]


def c_fiber_yield(b, u, r, mods):
    return (["var cf%d = Fiber.new(|cin%d| {" % (u, u), "    var cy%d = Fiber.yield([\"ctx-yield\", cin%d]);" % (u, u), "    print(cy%d);" % u] + _ind(b) +
            ["    return \"ctx-fiber-done\";", "});", "print(cf%d.call(%d));" % (u, u), "print(cf%d.call(\"ctx-resumed\"));" % u, "print(cf%d.has_finished());" % u])


def c_fiber_in_try(b, u, r, mods):
    # the fiber is created and first called inside a try block of the caller; its body runs with the caller's handler below
    return (["var cf%d = nil;" % u, "try {", "    cf%d = Fiber.new(|| {" % u, "        Fiber.yield(\"ctx-parked\");"] + _ind(b, 2) +
            ["    });", "    print(cf%d.call());" % u, "} catch ce%d {" % u, "    print(\"ctx-unreachable\");", "}", "cf%d.call();" % u])


def c_method(b, u, r, mods):
    return ["#[constructor(new)]", "class CW%d {" % u, "    fn run(self) {"] + _ind(b, 2) + ["    }", "}", "CW%d.new().run();" % u]


def c_ctor(b, u, r, mods):
    return (["class CW%d {" % u, "    #[constructor]", "    fn new(self, ctag) {", "        self.ctag = ctag;"] + _ind(b, 2) +
            ["    }", "}", "print(CW%d.new(\"ctx-ctor\").ctag);" % u])


def c_static(b, u, r, mods):
    return ["class CW%d {" % u, "    #[static]", "    fn run() {"] + _ind(b, 2) + ["    }", "}", "CW%d.run();" % u]


def c_super(b, u, r, mods):
    return (["#[constructor(new)]", "class CWB%d {" % u, "    fn run(self, cx) {", "        self.seen = cx;"] + _ind(b, 2) +
            ["        return \"ctx-base\";", "    }", "}",
            "#[derive(CWB%d), constructor(new)]" % u, "class CWM%d {" % u, "}",
            "#[derive(CWM%d), constructor(new)]" % u, "class CWD%d {" % u,
            "    fn run(self, cx) {", "        var cr = super.run(cx);", "        return [cr, self.seen];", "    }", "}",
            "print(CWD%d.new().run(\"ctx-sub\"));" % u])


def c_boundfield(b, u, r, mods):
    return (["#[constructor(new)]", "class CW%d {" % u, "    fn run(self) {"] + _ind(b, 2) + ["        return self;", "    }", "}",
            "#[constructor(new)]", "class CH%d {}" % u, "var ch%d = CH%d.new();" % (u, u), "ch%d.go = CW%d.new().run;" % (u, u),
            "print(type(ch%d.go()));" % u])


def c_try(b, u, r, mods):
    return ["try {"] + _ind(b) + ["} catch ce%d {" % u, "    print(\"ctx-caught\");", "    print(type(ce%d));" % u, "}", "print(\"ctx-after-try\");"]


def c_try_finally(b, u, r, mods):
    return ["try {"] + _ind(b) + ["} finally {", "    print(\"ctx-finally\");", "}"]


def c_try_catch_finally(b, u, r, mods):
    return ["try {"] + _ind(b) + ["} catch ce%d {" % u, "    print(\"ctx-caught\");", "    print(type(ce%d));" % u, "} finally {", "    print(\"ctx-finally\");", "}"]


def c_catch(b, u, r, mods):
    thrown = r.choice(["\"ctx\"", "[1, 2]", "Error.new(\"ctx\")", "ValueError.new(\"ctx\")"])
    return ["try {", "    throw %s;" % thrown, "} catch ce%d {" % u, "    print(type(ce%d));" % u] + _ind(b) + ["}"]


def c_catch_builtin(b, u, r, mods):
    fail = r.choice(["nil + 1;", "[1][7];", "\"a\".nope();", "ctx_undefined_%d;" % u, "(|a| a)();"])
    return ["try {", "    %s" % fail, "} catch ce%d {" % u, "    print(type(ce%d));" % u] + _ind(b) + ["}"]


def c_for_vec(b, u, r, mods):
    return ["for ci%d in [%d] {" % (u, u)] + _ind(b) + ["}"]


def c_for_range(b, u, r, mods):
    return ["for ci%d in %d..%d {" % (u, u, u + 1)] + _ind(b) + ["}"]


def c_for_adapter(b, u, r, mods):
    return ["for ci%d in [1, 2, 3].iter().map(|x| x * 2).filter(|x| x == 4) {" % u, "    print(\"ctx-item ${ci%d}\");" % u] + _ind(b) + ["}"]


def c_for_useriter(b, u, r, mods):
    return (["#[constructor(new)]", "class CI%d {" % u, "    fn iter(self) { self.n = 0; return self; }",
            "    fn next(self) { self.n = self.n + 1; if self.n > 1 { return StopIter.new(); } return self.n; }", "}",
            "for ci%d in CI%d.new() {" % (u, u)] + _ind(b) + ["}"])


def c_while(b, u, r, mods):
    return ["var cwf%d = 0;" % u, "while cwf%d < 1 {" % u, "    cwf%d += 1;" % u] + _ind(b) + ["}"]


def c_map_callback(b, u, r, mods):
    return ["print([%d].iter().map(|cx%d| {" % (u, u)] + _ind(b) + ["    return cx%d + 1;" % u, "}).collect());"]


def c_reduce_callback(b, u, r, mods):
    return ["print([%d].iter().reduce(|cacc%d, cx%d| {" % (u, u, u)] + _ind(b) + ["    return cacc%d + cx%d;" % (u, u), "}, 1));"]


def c_module_top(b, u, r, mods):
    mods.append(("ctxm%d" % u, "\n".join(b) + "\nvar ctx_loaded = \"ctx-loaded %d\";\n" % u))
    return ["import \"ctxm%d\" as cm%d;" % (u, u), "print(cm%d.ctx_loaded);" % u, "import \"ctxm%d\" as cn%d;" % (u, u), "print(cn%d == cm%d);" % (u, u)]


def c_module_fn(b, u, r, mods):
    mods.append(("ctxf%d" % u, "var ctx_calls = 0;\nfn run() {\n    ctx_calls += 1;\n" + "\n".join(_ind(b)) + "\n    return ctx_calls;\n}\n"))
    return ["import \"ctxf%d\" as cm%d;" % (u, u), "print(cm%d.run());" % u, "print(cm%d.ctx_calls);" % u]


def c_finally_plain(b, u, r, mods):
    # a finally block reached by falling out of its try block: no exception passes through it, nothing is pending
    return ["try {", "    print(\"ctx-try\");", "} finally {"] + _ind(b) + ["}"]


def c_finally_after_return(b, u, r, mods):
    # a finally block that runs while the function's return value waits for it; the body runs in a function called from
    # there (a try / finally written directly in such a block is the known finding K-exc-finally-nested-pending-return)
    return ["fn ctxfr%d() {" % u, "    fn ctxbody%d() {" % u] + _ind(b, 2) + ["    }", "    try {", "        return \"ctx-returned %d\";" % u, "    } finally {",
            "        ctxbody%d();" % u, "        print(\"ctx-finally-rest\");", "    }", "    return \"ctx-fell-through\";", "}", "print(ctxfr%d());" % u]


def c_finally_in_method(b, u, r, mods):
    return ["#[constructor(new)]", "class CtxFin%d {" % u, "    fn body(self) {"] + _ind(b, 2) + ["    }", "    fn run(self, a) {", "        try {",
            "            if a { return [\"ctx-method-returned\", a]; }", "        } finally {", "            self.body();", "            print(\"ctx-finally-rest\");",
            "        }", "        return \"ctx-method-end\";", "    }", "}", "print(CtxFin%d.new().run(%s));" % (u, r.choice(["true", "false", "7"]))]


CONTEXTS = [c_block, c_if, c_fn, c_fn_args, c_lambda, c_fiber, c_fiber_yield, c_fiber_in_try, c_method, c_ctor, c_static, c_super,
            c_boundfield, c_try, c_try_finally, c_try_catch_finally, c_catch, c_catch_builtin, c_for_vec, c_for_range, c_for_adapter,
            c_for_useriter, c_while, c_map_callback, c_reduce_callback, c_module_top, c_module_fn,
            c_finally_plain, c_finally_after_return, c_finally_in_method]
# contexts whose body becomes a module: everything the body needs must travel with it, so they may only be applied
# to the whole program (prelude included) and only as the innermost context
MODULE_CTX = (c_module_top, c_module_fn)
# a body placed in these may not be wrapped again in a context that declares a class around it when ... (no restriction found so far)


GROUPS = {
    "C05": [c_block, c_if, c_while],
    "C06": [c_fn, c_fn_args, c_lambda, c_block],
    "C07": [c_method, c_ctor, c_static, c_super, c_boundfield],
    "C08": [c_try, c_try_finally, c_try_catch_finally, c_catch, c_catch_builtin, c_finally_plain, c_finally_after_return, c_finally_in_method],
    "C09": [c_fiber, c_fiber_yield, c_fiber_in_try],
    "C14": [c_module_top, c_module_fn],
    "C18": [c_for_vec, c_for_range, c_for_adapter, c_for_useriter, c_map_callback, c_reduce_callback],
}


def nest(src, mods, rng, depth=None, must=None):
    """returns (source, modules, [context names]) - the program body inside `depth` random contexts; `must` names a
    group of GROUPS from which at least one context is taken"""
    r = rng
    m = PRELUDE_RE.match(src)
    pre, body = src[:m.end()], src[m.end():]
    mods = list(mods or [])
    depth = depth or r.range(2, 4)
    names = []
    lines = body.rstrip("\n").split("\n")
    u = 900
    plain = [c for c in CONTEXTS if c not in MODULE_CTX]
    chosen = []
    for level in range(depth):
        if level == 0 and r.chance(15):
            chosen.append(r.choice(list(MODULE_CTX)))
        else:
            chosen.append(r.choice(plain))
    if must and not any(c in GROUPS[must] for c in chosen):
        c = r.choice(GROUPS[must])
        chosen[0 if c in MODULE_CTX else r.below(depth)] = c
    for level, c in enumerate(chosen):
        if c in MODULE_CTX and pre:
            # the prelude goes into the module with the body (a module sees only its own globals and the built-ins)
            lines = pre.rstrip("\n").split("\n") + lines
        lines = c(lines, u + level, r, mods)
        names.append(c.__name__[2:])
    return pre + "\n".join(lines) + "\n", mods, names


def interplay(rng, own_profiles, group, n_own, n_other):
    """programs for a check: n_own programs of the check's own profiles inside random contexts, and n_other programs of
    any profile inside contexts of which at least one belongs to the check's own feature (`group`)"""
    from . import profiles as _profiles, progs as _progs
    out = []
    if own_profiles:
        for i in range(n_own):
            name, prof = own_profiles[i % len(own_profiles)]
            r = rng.fork("own/%s/%d" % (name, i))
            src, mods = _progs.generate(r.fork("g"), prof)
            s2, m2, names = nest(src, mods, r.fork("n"))
            out.append({"name": "nest-own/%s/%d[%s]" % (name, i, ">".join(names)), "steps": [("snip", s2)], "mods": m2, "ctx": names})
    if group is None or group in GROUPS:
        allp = _profiles.all_profiles()
        for i in range(n_other):
            name, prof = allp[i % len(allp)]
            r = rng.fork("other/%s/%d" % (name, i))
            src, mods = _progs.generate(r.fork("g"), prof)
            s2, m2, names = nest(src, mods, r.fork("n"), must=group)
            out.append({"name": "nest-in/%s/%d[%s]" % (name, i, ">".join(names)), "steps": [("snip", s2)], "mods": m2, "ctx": names})
    return out
