"""import graphs for C14: up to 6 generated modules served by the runner's loader (DAGs, diamonds,
self-loops, longer cycles, missing and uncompilable members), imported at top level, in functions,
in try blocks, under aliases and repeatedly."""


def import_stmt(r, target, alias_ok=True):
    if alias_ok and r.chance(40):
        alias = "al_" + target.replace("/", "_")
        return "import \"%s\" as %s;" % (target, alias), alias
    return "import \"%s\";" % target, target.split("/")[-1]


def module_program(rng):
    r = rng
    n = r.range(2, 6)
    names = ["m%d" % i for i in range(n)]
    paths = {nm: (nm if r.chance(70) else "lib/" + nm) for nm in names}
    kinds = {}
    for nm in names:
        kinds[nm] = r.weighted([("ok", 12), ("missing", 2), ("broken", 2), ("throws", 1)])
    # edges: mostly forward (DAG), sometimes backward (cycle) or self
    edges = {nm: [] for nm in names}
    for i, nm in enumerate(names):
        for j, other in enumerate(names):
            if i == j:
                if r.chance(6):
                    edges[nm].append(other)
            elif j > i and r.chance(35):
                edges[nm].append(other)
            elif j < i and r.chance(8):
                edges[nm].append(other)
    mods = []
    for nm in names:
        if kinds[nm] == "missing":
            continue
        if kinds[nm] == "broken":
            mods.append((paths[nm], "print(\"body of %s\");\nvar x = ;\n" % nm))
            continue
        L = ["print(\"body of %s\");" % nm, "var name = \"%s\";" % nm, "var counter = 0;", "var secret_%s = [\"%s\"];" % (nm, nm)]
        L.append("fn bump() { counter = counter + 1; return [name, counter]; }")
        L.append("fn who() { return name; }")
        L.append("fn sees_builtins() { return [type(1), String.from(2), [3].len(), TypeError, type(clock), type(type)]; }")
        L.append("fn leak_check() { try { return main_only; } catch e { return type(e); } }")
        deps = []
        for dep in edges[nm]:
            where = r.below(3)
            st, bound = import_stmt(r, paths[dep])
            if where == 0:
                L.append(st)
                deps.append(bound)
                L.append("fn via_%s() { return %s; }" % (bound, bound))
            elif where == 1:
                L.append("fn load_%s() { %s return %s; }" % (dep, st, bound))
            else:
                L.append("try { %s print(\"%s got %s\"); } catch e { print(\"%s: import of %s failed\"); print(type(e)); }" % (st, nm, dep, nm, dep))
        if kinds[nm] == "throws":
            L.append("print(nil + 1);")
        L.append("print(\"end of %s\");" % nm)
        mods.append((paths[nm], "\n".join(L) + "\n"))
    M = ["var main_only = \"main global\";", "var name = \"main\";", "var counter = 100;"]
    if r.chance(35):
        # the importer rebinds built-in names in its own globals: modules must still see the built-ins
        M.append(r.choice(["fn type(x) { return \"main's type\"; }", "var clock = \"not a function\";",
                           "var String = nil;", "var TypeError = 7;", "fn type(x) { return 1; } var clock = nil;"]))
    bound_names = {}
    order = r.shuffle(names)
    for nm in order[:r.range(1, n)]:
        st, bound = import_stmt(r, paths[nm])
        where = r.below(4)
        if where == 0:
            M.append("try { %s print(\"imported %s\"); } catch e { print(\"import of %s failed\"); print(type(e)); }" % (st, nm, nm))
            # a binding made inside the try block is local to it: re-import at top level if it worked
        elif where == 1:
            M.append("fn get_%s() { %s return %s; }" % (nm, st, bound))
            M.append("try { var got = get_%s(); print(got.who()); print(got == get_%s()); print(got.bump()); } catch e { print(type(e)); }" % (nm, nm))
        else:
            M.append("try { %s } catch e { print(type(e)); }" % st if False else "")
            M.append("var ok_%s = false;" % nm)
            M.append("try { import \"%s\" as top_%s; ok_%s = true; } catch e { print(\"import of %s failed\"); print(type(e)); }" % (paths[nm], nm, nm, nm))
        if where in (0, 2, 3):
            M.append("fn use_%s() { import \"%s\" as mm; return [mm.who(), mm.bump(), mm.bump(), mm.name, mm.counter, mm.sees_builtins(), mm.leak_check()]; }" % (nm, paths[nm]))
            M.append("try { print(use_%s()); print(use_%s()[1]); } catch e { print(type(e)); }" % (nm, nm))
            M.append("fn same_%s() { import \"%s\" as a1; import \"%s\" as a2; return [a1 == a2, a1.bump == a2.bump, a1.who() == a2.who()]; }" % (nm, paths[nm], paths[nm]))
            M.append("try { print(same_%s()); } catch e { print(type(e)); }" % nm)
            M.append("try { print(secret_%s); } catch e { print(type(e)); }" % nm)
            if r.chance(40):
                M.append("fn set_%s() { import \"%s\" as w; w.counter = 500; w.added = \"new\"; return [w.bump(), w.added]; }" % (nm, paths[nm]))
                M.append("try { print(set_%s()); } catch e { print(type(e)); }" % nm)
            if r.chance(30):
                M.append("fn attr_%s() { import \"%s\" as w; return w.no_such_attribute; }" % (nm, paths[nm]))
                M.append("try { print(attr_%s()); } catch e { print(type(e)); print(e.context); }" % nm)
    M.append("print([name, counter, main_only]);")
    M = [l for l in M if l]
    return "\n".join(M) + "\n", mods
