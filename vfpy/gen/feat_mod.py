"""import graphs for C14: up to 6 generated modules served by the runner's loader (DAGs, diamonds,
self-loops, longer cycles, missing and uncompilable members), imported at top level, in functions,
in try blocks, under aliases and repeatedly."""


def import_stmt(r, target, alias_ok=True):
    if alias_ok and r.chance(40):
        alias = "al_" + "".join(ch if ch.isalnum() else "_" for ch in target)
        return "import \"%s\" as %s;" % (target, alias), alias
    return "import \"%s\";" % target, target.split("/")[-1]


def module_program(rng):
    r = rng
    n = r.range(2, 6)
    names = ["m%d" % i for i in range(n)]
    # the path text is the module's identity for the library: plain names, directories, and spellings a path
    # normaliser might be tempted to merge ("./m0" and "m0" are different modules unless the host says otherwise)
    paths = {nm: r.weighted([(nm, 60), ("lib/" + nm, 20), ("./" + nm, 12), ("./lib/../" + nm, 8)]) for nm in names}
    kinds = {}
    for nm in names:
        kinds[nm] = r.weighted([("ok", 12), ("missing", 2), ("broken", 2), ("throws", 1)])
    # edges: mostly forward (DAG), sometimes backward (cycle) or self
    edges = {nm: [] for nm in names}
    for i, nm in enumerate(names):
        for j, other in enumerate(names):
            if i == j:
                if r.chance(6):
                    edges[nm].append(other)
            elif j > i and r.chance(35):
                edges[nm].append(other)
            elif j < i and r.chance(8):
                edges[nm].append(other)
    mods = []
    for nm in names:
        if kinds[nm] == "missing":
            continue
        if kinds[nm] == "broken":
            mods.append((paths[nm], "print(\"body of %s\");\nvar x = ;\n" % nm))
            continue
        L = ["print(\"body of %s\");" % nm, "var name = \"%s\";" % nm, "var counter = 0;", "var secret_%s = [\"%s\"];" % (nm, nm)]
        L.append("fn bump() { counter = counter + 1; return [name, counter]; }")
        L.append("fn who() { return name; }")
        L.append("fn sees_builtins() { return [type(1), String.from(2), [3].len(), TypeError, type(clock), type(type)]; }")
        L.append("fn leak_check() { try { return main_only; } catch e { return type(e); } }")
        # globals of every kind of value, to be read and called through the module object
        L += ["var g_nil = nil;", "var g_unset;", "var g_false = false;", "var g_zero = 0;", "var g_empty = \"\";", "var g_vec = [name];",
              "var g_native = type;", "var g_strfn = String.from;", "var g_items = [1];", "var g_push = g_items.push;",
              "#[constructor(new)] class Counter { fn bump(self) { counter = counter + 10; return counter; } #[static] fn make() { return Counter.new(); } }",
              "var g_inst = Counter.new();", "var g_bound = g_inst.bump;", "var g_lambda = |a| [a, name];", "var g_class = Counter;"]
        deps = []
        for dep in edges[nm]:
            where = r.below(3)
            st, bound = import_stmt(r, paths[dep])
            if where == 0:
                L.append(st)
                deps.append(bound)
                L.append("fn via_%s() { return %s; }" % (bound, bound))
            elif where == 1:
                L.append("fn load_%s() { %s return %s; }" % (dep, st, bound))
            else:
                L.append("try { %s print(\"%s got %s\"); } catch e { print(\"%s: import of %s failed\"); print(type(e)); }" % (st, nm, dep, nm, dep))
        if kinds[nm] == "throws":
            L.append("print(nil + 1);")
        L.append("print(\"end of %s\");" % nm)
        mods.append((paths[nm], "\n".join(L) + "\n"))
    M = ["var main_only = \"main global\";", "var name = \"main\";", "var counter = 100;"]
    if r.chance(35):
        # the importer rebinds built-in names in its own globals: modules must still see the built-ins
        M.append(r.choice(["fn type(x) { return \"main's type\"; }", "var clock = \"not a function\";",
                           "var String = nil;", "var TypeError = 7;", "fn type(x) { return 1; } var clock = nil;"]))
    bound_names = {}
    order = r.shuffle(names)
    for nm in order[:r.range(1, n)]:
        st, bound = import_stmt(r, paths[nm])
        where = r.below(4)
        if where == 0:
            M.append("try { %s print(\"imported %s\"); } catch e { print(\"import of %s failed\"); print(type(e)); }" % (st, nm, nm))
            # a binding made inside the try block is local to it: re-import at top level if it worked
        elif where == 1:
            M.append("fn get_%s() { %s return %s; }" % (nm, st, bound))
            M.append("try { var got = get_%s(); print(got.who()); print(got == get_%s()); print(got.bump()); } catch e { print(type(e)); }" % (nm, nm))
        else:
            M.append("try { %s } catch e { print(type(e)); }" % st if False else "")
            M.append("var ok_%s = false;" % nm)
            M.append("try { import \"%s\" as top_%s; ok_%s = true; } catch e { print(\"import of %s failed\"); print(type(e)); }" % (paths[nm], nm, nm, nm))
        if where in (0, 2, 3):
            M.append("fn use_%s() { import \"%s\" as mm; return [mm.who(), mm.bump(), mm.bump(), mm.name, mm.counter, mm.sees_builtins(), mm.leak_check()]; }" % (nm, paths[nm]))
            M.append("try { print(use_%s()); print(use_%s()[1]); } catch e { print(type(e)); }" % (nm, nm))
            M.append("fn same_%s() { import \"%s\" as a1; import \"%s\" as a2; return [a1 == a2, a1.bump == a2.bump, a1.who() == a2.who()]; }" % (nm, paths[nm], paths[nm]))
            M.append("try { print(same_%s()); } catch e { print(type(e)); }" % nm)
            M.append("try { print(secret_%s); } catch e { print(type(e)); }" % nm)
            if r.chance(40):
                M.append("fn set_%s() { import \"%s\" as w; w.counter = 500; w.added = \"new\"; return [w.bump(), w.added]; }" % (nm, paths[nm]))
                M.append("try { print(set_%s()); } catch e { print(type(e)); }" % nm)
            if r.chance(60):
                reads = r.sample(["g_nil", "g_unset", "g_false", "g_zero", "g_empty", "g_vec", "g_items", "type(w.g_native)", "type(w.g_bound)", "g_class", "type(w.g_inst)"], 5)
                calls = r.sample(["g_native(1)", "g_strfn(2)", "g_push(7)", "g_bound()", "g_lambda(3)", "g_class.new().bump()", "g_class.make().bump()",
                                  "g_inst.bump()", "Counter.make().bump()", "g_vec.len()", "g_nil()", "g_zero(1)"], 5)
                body = " ".join("try { print(%s); } catch e { print(type(e)); print(e.context); }" % (x if x.startswith("type(") else "w." + x) for x in reads + calls)
                M.append("fn kinds_%s() { import \"%s\" as w; %s w.g_zero = nil; try { print(w.g_zero); } catch e { print(type(e)); } w.g_nil = 5; print(w.g_nil); w.g_nil = nil; return w.g_items; }" % (nm, paths[nm], body))
                M.append("try { print(kinds_%s()); } catch e { print(type(e)); print(e.context); }" % nm)
            if r.chance(30):
                M.append("fn attr_%s() { import \"%s\" as w; return w.no_such_attribute; }" % (nm, paths[nm]))
                M.append("try { print(attr_%s()); } catch e { print(type(e)); print(e.context); }" % nm)
    M.append("print([name, counter, main_only]);")
    M = [l for l in M if l]
    return "\n".join(M) + "\n", mods


def module_history(rng):
    """several runs on one interpreter: imports that die uncaught half-way (a module that throws at top level, a cycle, a
    module that does not compile), an import suspended inside a fiber that a later run resumes, and re-imports of all of
    these by later runs, at top level, in functions and in try blocks. Every module body announces itself, so 'at most
    once per interpreter' is observable over the whole history."""
    r = rng
    mods = [("ok1", "print(\"body of ok1\");\nvar counter = 0;\nfn who() { return \"ok1\"; }\nfn bump() { counter = counter + 1; return counter; }\n"),
            ("ok2", "print(\"body of ok2\");\nimport \"ok1\";\nvar counter = 50;\nfn who() { return \"ok2\"; }\nfn bump() { counter = counter + 1; return [counter, ok1.bump()]; }\n"),
            ("thr", "print(\"body of thr\");\nvar counter = 0;\nfn who() { return \"thr\"; }\nfn bump() { counter = counter + 1; return counter; }\nimport \"ok1\";\nprint(nil + 1);\nprint(\"end of thr\");\n"),
            ("cya", "print(\"body of cya\");\nfn who() { return \"cya\"; }\nfn bump() { return 1; }\nimport \"cyb\";\nprint(\"end of cya\");\n"),
            ("cyb", "print(\"body of cyb\");\nfn who() { return \"cyb\"; }\nfn bump() { return 2; }\nimport \"cya\";\nprint(\"end of cyb\");\n"),
            ("sus", "print(\"body of sus\");\nvar stage = 1;\nfn who() { return \"sus\"; }\nfn bump() { stage = stage + 1; return stage; }\n"
                    "try { Fiber.yield(\"sus yielded\"); } catch e { print(\"sus: not inside a fiber\"); }\nstage = 10;\nprint(\"end of sus\");\n"),
            ("brk", "print(\"body of brk\");\nvar x = ;\n")]
    names = ["ok1", "ok2", "thr", "cya", "cyb", "sus", "brk", "gone"]
    steps = []
    fibers = []
    for i in range(r.range(3, 8)):
        nm = r.weighted([("ok1", 2), ("ok2", 2), ("thr", 4), ("cya", 4), ("cyb", 2), ("sus", 5), ("brk", 1), ("gone", 1)])
        c = r.below(100)
        use = "print([a%d.who(), a%d.bump()]);" % (i, i)
        if fibers and r.chance(40):
            fb, fnm = fibers.pop(r.below(len(fibers)))
            steps.append(("snip", "var r%d = nil;\ntry { r%d = %s.call(); print(type(r%d)); } catch e { print(type(e)); print(e.context); }\n"
                                  "try { import \"%s\" as b%d; print(b%d == r%d); print(b%d.who()); } catch e { print(type(e)); print(e.context); }\n"
                          % (i, i, fb, i, fnm, i, i, i, i)))
        elif c < 30:
            steps.append(("snip", "print(\"run %d\");\nimport \"%s\" as a%d;\n%s\n" % (i, nm, i, use)))
        elif c < 55:
            steps.append(("snip", "try { import \"%s\" as a%d; %s } catch e { print(type(e)); print(e.context); }\nprint(\"run %d done\");\n" % (nm, i, use, i)))
        elif c < 70:
            steps.append(("snip", "fn load%d() { import \"%s\" as a%d; %s return a%d; }\nvar g%d = load%d();\nprint(g%d == load%d());\n" % (i, nm, i, use, i, i, i, i, i)))
        elif c < 92:
            steps.append(("snip", "var fb%d = Fiber.new(|| { import \"%s\" as a%d; %s return a%d; });\n"
                                  "try { print(type(fb%d.call())); } catch e { print(type(e)); print(e.context); }\nprint(fb%d.has_finished());\n" % (i, nm, i, use, i, i, i)))
            fibers.append(("fb%d" % i, nm))
        else:
            steps.append(("snip", r.choice(["print(nil + 1);\n", "throw \"stop\";\n", "var = 3;\n", "fn deep(n) { if n == 0 { throw \"deep\"; } return deep(n - 1); }\ndeep(5);\n"])))
    last = ["try { import \"%s\" as z%d; print([z%d.who(), z%d.bump()]); } catch e { print(type(e)); print(e.context); }" % (nm, k, k, k)
            for k, nm in enumerate(r.sample(names, 4))]
    steps.append(("snip", "\n".join(last) + "\n"))
    return steps, mods


def native_alias_program(rng):
    """main binds built-in functions and other values under names of its own (var say = print; ...); imported modules
    that use those names without defining them must get a NameError for every kind of value, and vice versa"""
    r = rng
    aliases = [("say", "print"), ("kind_of", "type"), ("to_text", "String.from"), ("tick", "clock"), ("push_it", "[1].push"), ("a_number", "41"),
               ("a_lambda", "|x| x"), ("a_class", "Vec"), ("an_error", "TypeError"), ("a_vec", "[1, 2]")]
    picked = r.sample(aliases, r.range(3, 7))
    lib = ["var lib_only = \"lib value\";", "var lib_say = print;"]
    for name, _ in aliases:
        lib.append("fn use_%s() { try { return type(%s); } catch e { return [type(e), e.context]; } }" % (name, name))
    lib.append("fn call_say() { try { say(\"from lib\"); return \"announced\"; } catch e { return [type(e), e.context]; } }")
    lib.append("fn own() { return [type(lib_say), lib_only]; }")
    M = ["var %s = %s;" % kv for kv in picked] + ["import \"aliaslib\" as aliaslib;"]
    for name, _ in r.sample(aliases, 6):
        M.append("print(aliaslib.use_%s());" % name)
    M += ["print(aliaslib.call_say());", "print(aliaslib.own());", "try { print(lib_only); } catch e { print(type(e)); }",
          "try { print(type(lib_say)); } catch e { print(type(e)); }"]
    return "\n".join(M) + "\n", [("aliaslib", "\n".join(lib) + "\n")]


def deep_import_program(rng):
    """imports executed at call depths around the frame limit (a module body runs as one more call): the import
    either succeeds or fails with a catchable error, and in both cases the importer's own globals - including ones
    that shadow built-in names - and the module registry must be what the model says"""
    r = rng
    depth = r.choice([1, 30, 58, 59, 60, 61, 62, 63, 64, 62, 61])
    shadow = r.sample(["clock", "type", "Num", "Vec", "String", "Object", "Error", "StopIter", "HashMap", "Fiber"], r.range(1, 3)) if hasattr(r, "sample") else ["clock", "Num"]
    nested = r.chance(40)
    mods = [("dm_leaf", "print(\"leaf body\");\nvar leafv = [clock == nil, type(1)];\nfn get() { return leafv; }\n")]
    if nested:
        mods.append(("dm_mid", "print(\"mid body\");\nvar Num = \"mid's Num\";\nimport \"dm_leaf\" as leaf;\nfn get() { return [Num, leaf.get()]; }\n"))
    target = "dm_mid" if nested else "dm_leaf"
    L = ["var %s = \"my %s\";" % (s, s) for s in shadow if s not in ("type",)]
    L += ["var mine = [1, 2];",
          "fn deep(n) { if n == 0 { import \"%s\" as m; return m.get(); } return deep(n - 1); }" % target,
          "try { print(deep(%d)); } catch e { print(type(e)); print(e.context); }" % depth]
    L += ["print(%s);" % s for s in shadow if s != "type"]
    L += ["print(mine);",
          "try { import \"%s\" as again; print(again.get()); } catch e { print(type(e)); print(e.context); }" % target,
          "try { import \"dm_leaf\" as l2; print(l2.get()); } catch e { print(type(e)); print(e.context); }",
          "try { print(deep(3)); } catch e { print(type(e)); print(e.context); }"]
    L += ["print(%s);" % s for s in shadow if s != "type"]
    return "\n".join(L) + "\n", mods


def self_import_program(rng):
    """modules whose functions import their own module or a peer *when called*, i.e. after (or, for some, during) the
    load: an import of a module that has finished loading yields that module whoever asks, an import of one that is
    still loading is the ImportError, and the difference is decided by the load state alone"""
    r = rng
    n = r.range(1, 3)
    mods = []
    for k in range(n):
        other = (k + 1) % n
        body = ["print(\"load sm%d\");" % k, "var tag = \"tag%d\";" % k, "var calls = 0;",
                "fn me() { calls += 1; import \"sm%d\" as s; return s; }" % k,
                "fn me_tag() { import \"sm%d\" as s; return [s.tag, s.calls]; }" % k,
                "fn peer() { import \"sm%d\" as o; return o.tag; }" % other,
                "#[constructor(new)] class Holder { fn own(self) { import \"sm%d\" as s; return s.tag; } #[static] fn st() { import \"sm%d\" as s; return s; } }" % (k, k),
                "var lam = || { import \"sm%d\" as s; return s.calls; };" % k]
        if r.chance(40):
            body.append("try { print(me()); } catch e { print(\"during load: ${e.context}\"); }")
        if r.chance(30):
            body.append("try { import \"sm%d\" as early; print(early); } catch e { print(\"top-level self import: ${e.context}\"); }" % k)
        if r.chance(30) and n > 1:
            body.append("try { print(peer()); } catch e { print(\"peer during load: ${e.context}\"); }")
        mods.append(("sm%d" % k, "\n".join(body) + "\n"))
    L = []
    for k in range(n):
        L.append("import \"sm%d\" as m%d; print(\"imported sm%d\");" % (k, k, k))
    for k in range(n):
        calls = ["print(m%d.me() == m%d);" % (k, k), "print(m%d.me_tag());" % k, "print(m%d.peer());" % k, "print(m%d.Holder.new().own());" % k,
                 "print(m%d.Holder.st() == m%d);" % (k, k), "print(m%d.lam());" % k, "var f%d = m%d.me; print(f%d().tag);" % (k, k, k),
                 "var fb%d = Fiber.new(|| m%d.me()); print(fb%d.call() == m%d);" % (k, k, k, k)]
        for c in r.sample(calls, r.range(3, len(calls))):
            L.append("try { %s } catch e { print(type(e)); print(e.context); }" % c)
    return "\n".join(L) + "\n", mods
