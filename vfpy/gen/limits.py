"""programs built to sit on each encoding limit (C04): jump distances around 65535 bytes for every
jump-emitting construct, 254..257 operands for every counted construct, 255..257 locals and
captures, 65535..65537 distinct constants."""


def filler(nbytes):
    """statements compiling to exactly nbytes of code inside a block: `nil;` = 2 bytes, `-1;` = 5 bytes"""
    if nbytes < 2:
        return ""
    if nbytes % 2 == 1:
        if nbytes < 5:
            return ""
        return "-1;" + "nil;" * ((nbytes - 5) // 2)
    return "nil;" * (nbytes // 2)


def nested_vec(nbytes):
    """an expression compiling to about nbytes: rows of `nil` elements (1 byte each + 2 per row)"""
    rows = []
    left = nbytes
    while left > 2 and len(rows) < 255:
        n = min(255, left - 2)
        rows.append("[" + ", ".join(["nil"] * n) + "]")
        left -= n + 2
    return "[" + ", ".join(rows) + "]"


LIMIT_MESSAGES = ["Too much code to jump over.", "Loop body too large.", "Too much code in block.", "Too many constants in one chunk.",
                  "Cannot have more than 255 arguments.", "Cannot have more than 255 parameters.", "Cannot have more than 255 Vec elements.",
                  "Cannot have more than 255 Tuple elements.", "Cannot have more than 255 HashMap entries.",
                  "Cannot have more than 255 parts in an interpolated string.", "Too many variables in function.",
                  "Too many closure variables in function."]


def jump_family(deltas):
    """(name, source) for each construct and each size around the 16-bit limit"""
    out = []
    for d in deltas:
        n = 65536 + d
        F = filler(n)
        out.append(("if-then/%+d" % d, "var c = false;\nif c { %s }\nprint(\"after\");\nc = true;\nif c { %s print(\"in\"); }\nprint(\"end\");\n" % (F, F)))
        out.append(("if-else/%+d" % d, "var c = true;\nif c { print(\"then\"); } else { %s }\nprint(\"after\");\nif !c { print(\"then\"); } else { %s print(\"else\"); }\nprint(\"end\");\n" % (F, F)))
        out.append(("while/%+d" % d, "var i = 0;\nwhile i < 2 { i = i + 1; %s }\nprint(i);\n" % F))
        out.append(("for/%+d" % d, "var s = 0;\nfor x in [1, 2] { s = s + x; %s }\nprint(s);\n" % F))
        out.append(("break/%+d" % d, "var i = 0;\nwhile true { i = i + 1; if i == 2 { break; } %s }\nprint(i);\n" % F))
        out.append(("continue/%+d" % d, "var i = 0;\nvar t = 0;\nwhile i < 3 { i = i + 1; %s if i == 2 { continue; } t = t + i; }\nprint(t);\n" % F))
        out.append(("and/%+d" % d, "var c = false;\nvar r = c && %s;\nprint(r);\nvar q = true && %s;\nprint(q.len());\n" % (nested_vec(n), nested_vec(n))))
        out.append(("or/%+d" % d, "var c = 7;\nvar r = c || %s;\nprint(r);\nvar q = nil || %s;\nprint(q.len());\n" % (nested_vec(n), nested_vec(n))))
        out.append(("try-size/%+d" % d, "try { %s print(\"body\"); throw \"x\"; } catch e { print(e); }\nprint(\"after\");\n" % F))
        out.append(("catch-size/%+d" % d, "try { throw \"x\"; } catch e { %s print(e); } finally { print(\"fin\"); }\nprint(\"after\");\ntry { print(\"ok\"); } catch e { %s } finally { print(\"fin2\"); }\n" % (F, F)))
        out.append(("fn-body/%+d" % d, "fn big(c) { if c { %s return \"long\"; } return \"short\"; }\nprint(big(false));\nprint(big(true));\n" % F))
    return out


def count_family():
    out = []
    for n in (254, 255, 256, 257):
        args = ", ".join(str(i) for i in range(n))
        params = ", ".join("p%d" % i for i in range(n))
        out.append(("call-args/%d" % n, "fn f(%s) { return p0 + p%d; }\nprint(f(%s));\n" % (params, n - 1, args)))
        out.append(("lambda-params/%d" % n, "var f = |%s| p%d;\nprint(f(%s));\n" % (params, n - 1, args)))
        out.append(("method-args/%d" % n, "#[constructor(new)] class K { fn m(self, %s) { return p%d; } }\nprint(K.new().m(%s));\n" % (params, n - 1, args)))
        out.append(("vec-elems/%d" % n, "var v = [%s];\nprint(v.len());\nprint(v[%d]);\n" % (args, n - 1)))
        out.append(("tuple-elems/%d" % n, "var v = (%s);\nprint(v.len());\nprint(v[%d]);\n" % (args, n - 1)))
        out.append(("map-entries/%d" % n, "var m = {%s};\nprint(m.len());\nprint(m.get(%d));\n" % (", ".join("%d: %d" % (i, i * 2) for i in range(n)), n - 1)))
        out.append(("interp-parts/%d" % n, "var s = \"%s\";\nprint(s.len());\n" % "".join("${%d}" % (i % 10) for i in range(n))))
        out.append(("interp-mixed/%d" % n, "var s = \"%s\";\nprint(s.len());\nprint(s[0..6]);\n" % "".join("a${%d}" % (i % 10) for i in range((n + 1) // 2))))
        # every arrangement of literal pieces around the ${} parts: leading / separating / trailing text each count
        # as a part, and a following declaration shows whether the operand stack is where the compiler thinks
        for lead in (0, 1):
            for sep in (0, 1):
                for trail in (0, 1):
                    for total in (n,):
                        k = (total - lead - trail + sep) // (1 + sep)
                        if k < 1:
                            continue
                        body = ("L" if lead else "") + ("s" if sep else "").join("${%d}" % (i % 10) for i in range(k)) + ("T" if trail else "")
                        out.append(("interp-shape/%d%d%d/%d" % (lead, sep, trail, total),
                                    "fn f(v) {\n    var a = \"first\";\n    var s = \"%s\";\n    var b = \"last\";\n    return [a, s.len(), b];\n}\nprint(f(1));\n" % body))
        decls = "\n".join("    var l%d = %d;" % (i, i) for i in range(n))
        out.append(("locals/%d" % n, "fn f() {\n%s\n    return l0 + l%d;\n}\nprint(f());\n" % (decls, n - 1)))
        out.append(("locals-block/%d" % n, "{\n%s\n    print(l0 + l%d);\n}\n" % (decls, n - 1)))
        # captures: a closure two levels down capturing n variables of the two enclosing functions
        uses = " + ".join("l%d" % i for i in range(n))
        outer = "\n".join("    var l%d = %d;" % (i, i) for i in range(200))
        inner = "\n".join("        var l%d = %d;" % (i, i) for i in range(200, n))
        out.append(("captures/%d" % n, "fn f() {\n%s\n    fn g() {\n%s\n        return || %s;\n    }\n    return g();\n}\nprint(f()());\n" % (outer, inner, uses)))
    # bodies whose last byte is an operand: every operand value must be survivable (e.g. an operand
    # equal to an opcode number must not be mistaken for that opcode)
    for k in range(40, 72):
        params = "".join(", p%d" % i for i in range(k))
        args = ", ".join(str(i) for i in range(k))
        out.append(("ctor-empty/%d" % k, "class W {\n    #[constructor]\n    fn new(self%s) {}\n}\nvar w = W.new(%s);\nprint(type(w));\n" % (params, args)))
        decls = "\n".join("    var l%d = %d;" % (i, i) for i in range(k))
        out.append(("last-local/%d" % k, "fn f() {\n%s\n    var g = || l%d;\n    l%d;\n}\nprint(f());\n" % (decls, k - 1, k - 1)))
    for n in (65530, 65540, 65543, 65544, 65545, 65546, 65547, 65550):
        body = "\n".join("%d;" % (i + 100000) for i in range(n - 8))
        out.append(("constants/%d" % n, "%s\nprint(%d);\nprint(%d + 1);\n" % (body, 100000 + n - 9, 100000)))
    return out


def decl_limit_family():
    """the 256-locals limit reached by every construct that declares a local: var, for loop variable (plus its hidden
    iterator), catch variable, nested fn, class, lambda parameter list, import alias, block-level declarations"""
    out = []
    for n in (240, 246, 248, 249, 250, 251, 252, 253, 254, 255, 256):
        decls = "\n".join("    var l%d = %d;" % (i, i) for i in range(n))
        tails = {
            "for": "    var s = 0;\n    for x in xs { s = s + x; }\n    return s + l0;",
            "for_nested": "    var s = 0;\n    for x in xs { for y in xs { s = s + x * y; } }\n    return s;",
            "catch": "    try { throw l1; } catch err { return err + l0; }",
            "fn": "    fn inner(a) { return a + l0; }\n    return inner(1);",
            "class": "    #[constructor(new)] class Local { fn m(self) { return l1; } }\n    return Local.new().m();",
            "lambda": "    var f = |a, b| a + b + l1;\n    return f(1, 2);",
            "import": "    import \"limmod\" as lm;\n    return lm.v + l0;",
            "block": "    { var b1 = 1; var b2 = 2; return b1 + b2 + l1; }",
            "while": "    var i = 0;\n    while i < 2 { var t = i; i = i + 1 + t - t; }\n    return i;",
        }
        for name, tail in tails.items():
            out.append(("decl-limit-%s/%d" % (name, n), "fn f(xs) {\n%s\n%s\n}\nprint(f([1, 2, 3]));\n" % (decls, tail)))
    return out


def compound_after_constants():
    """compound assignment to globals and properties in a chunk that already holds 200-600 constants (name constants
    beyond index 255 need the two-byte operand on both the read and the write half)"""
    out = []
    for n in (100, 200, 250, 255, 256, 257, 300, 520, 600):
        table = "var table = [];\n" + "\n".join("table.push([%s]);" % ", ".join(str(1000 + i) for i in range(k, min(k + 100, n))) for k in range(0, n, 100))
        src = ("#[constructor(new)] class Counter {}\nvar c = Counter.new();\nc.hits = 7;\nc.misses = 3;\nvar total = 5;\nvar other = 50;\n%s\n"
               "c.hits += 1;\ntotal += 1;\nc.misses *= 2;\nother -= 1;\nc.fresh = 1;\nc.fresh += 10;\nvar late = 2;\nlate <<= 3;\n"
               "print([c.hits, c.misses, c.fresh, total, other, late, table.len()]);\n" % table)
        out.append(("compound-consts/%d" % n, src))
    return out


def handler_sum_family():
    """try statements whose try block and catch block each fit their own 16-bit size but whose sizes add up to around and
    beyond 65536 (the handler keeps both, and the address behind the catch block is their sum): every path through the
    statement - fall through, throw -> catch, return from the try block through finally, throw from a callee - still goes
    where the source says"""
    out = []
    for a, b in [(32768, 32767), (32768, 32768), (32768, 32769), (40000, 30000), (65000, 600), (600, 65000), (50000, 50000), (60000, 60000), (20000, 20000)]:
        A, B = filler(a), filler(b)
        out.append(("handler-sum/%d+%d" % (a, b), "\n".join([
            "fn h(mode) {",
            "    var before = [mode];",
            "    try { %s" % A,
            "        if mode == 1 { throw \"thrown\"; }",
            "        if mode == 2 { return \"returned\"; }",
            "        if mode == 3 { [][1]; }",
            "        before.push(\"end of try\");",
            "    } catch e { %s" % B,
            "        before.push(\"caught\");",
            "    } finally { before.push(\"finally\"); }",
            "    before.push(\"after\");",
            "    return before;",
            "}",
            "print(h(0)); print(h(1)); print(h(2)); print(h(3)); print(h(0));",
            "try { print(h(2)); throw \"outer\"; } catch e { print(e); }", ""])))
    return out
