"""programs built to sit on each encoding limit (C04): jump distances around 65535 bytes for every
jump-emitting construct, 254..257 operands for every counted construct, 255..257 locals and
captures, 65535..65537 distinct constants."""


def filler(nbytes):
    """statements compiling to exactly nbytes of code inside a block: `nil;` = 2 bytes, `-1;` = 5 bytes"""
    if nbytes < 2:
        return ""
    if nbytes % 2 == 1:
        if nbytes < 5:
            return ""
        return "-1;" + "nil;" * ((nbytes - 5) // 2)
    return "nil;" * (nbytes // 2)


def nested_vec(nbytes):
    """an expression compiling to about nbytes: rows of `nil` elements (1 byte each + 2 per row)"""
    rows = []
    left = nbytes
    while left > 2 and len(rows) < 255:
        n = min(255, left - 2)
        rows.append("[" + ", ".join(["nil"] * n) + "]")
        left -= n + 2
    return "[" + ", ".join(rows) + "]"


LIMIT_MESSAGES = ["Too much code to jump over.", "Loop body too large.", "Too much code in block.", "Too many constants in one chunk.",
                  "Cannot have more than 255 arguments.", "Cannot have more than 255 parameters.", "Cannot have more than 255 Vec elements.",
                  "Cannot have more than 255 Tuple elements.", "Cannot have more than 255 HashMap entries.",
                  "Cannot have more than 255 parts in an interpolated string.", "Too many variables in function.",
                  "Too many closure variables in function."]


def jump_family(deltas):
    """(name, source) for each construct and each size around the 16-bit limit"""
    out = []
    for d in deltas:
        n = 65536 + d
        F = filler(n)
        out.append(("if-then/%+d" % d, "var c = false;\nif c { %s }\nprint(\"after\");\nc = true;\nif c { %s print(\"in\"); }\nprint(\"end\");\n" % (F, F)))
        out.append(("if-else/%+d" % d, "var c = true;\nif c { print(\"then\"); } else { %s }\nprint(\"after\");\nif !c { print(\"then\"); } else { %s print(\"else\"); }\nprint(\"end\");\n" % (F, F)))
        out.append(("while/%+d" % d, "var i = 0;\nwhile i < 2 { i = i + 1; %s }\nprint(i);\n" % F))
        out.append(("for/%+d" % d, "var s = 0;\nfor x in [1, 2] { s = s + x; %s }\nprint(s);\n" % F))
        out.append(("break/%+d" % d, "var i = 0;\nwhile true { i = i + 1; if i == 2 { break; } %s }\nprint(i);\n" % F))
        out.append(("continue/%+d" % d, "var i = 0;\nvar t = 0;\nwhile i < 3 { i = i + 1; %s if i == 2 { continue; } t = t + i; }\nprint(t);\n" % F))
        out.append(("and/%+d" % d, "var c = false;\nvar r = c && %s;\nprint(r);\nvar q = true && %s;\nprint(q.len());\n" % (nested_vec(n), nested_vec(n))))
        out.append(("or/%+d" % d, "var c = 7;\nvar r = c || %s;\nprint(r);\nvar q = nil || %s;\nprint(q.len());\n" % (nested_vec(n), nested_vec(n))))
        out.append(("try-size/%+d" % d, "try { %s print(\"body\"); throw \"x\"; } catch e { print(e); }\nprint(\"after\");\n" % F))
        out.append(("catch-size/%+d" % d, "try { throw \"x\"; } catch e { %s print(e); } finally { print(\"fin\"); }\nprint(\"after\");\ntry { print(\"ok\"); } catch e { %s } finally { print(\"fin2\"); }\n" % (F, F)))
        out.append(("fn-body/%+d" % d, "fn big(c) { if c { %s return \"long\"; } return \"short\"; }\nprint(big(false));\nprint(big(true));\n" % F))
    return out


def count_family():
    out = []
    for n in (254, 255, 256, 257):
        args = ", ".join(str(i) for i in range(n))
        params = ", ".join("p%d" % i for i in range(n))
        out.append(("call-args/%d" % n, "fn f(%s) { return p0 + p%d; }\nprint(f(%s));\n" % (params, n - 1, args)))
        out.append(("lambda-params/%d" % n, "var f = |%s| p%d;\nprint(f(%s));\n" % (params, n - 1, args)))
        out.append(("method-args/%d" % n, "#[constructor(new)] class K { fn m(self, %s) { return p%d; } }\nprint(K.new().m(%s));\n" % (params, n - 1, args)))
        out.append(("vec-elems/%d" % n, "var v = [%s];\nprint(v.len());\nprint(v[%d]);\n" % (args, n - 1)))
        out.append(("tuple-elems/%d" % n, "var v = (%s);\nprint(v.len());\nprint(v[%d]);\n" % (args, n - 1)))
        out.append(("map-entries/%d" % n, "var m = {%s};\nprint(m.len());\nprint(m.get(%d));\n" % (", ".join("%d: %d" % (i, i * 2) for i in range(n)), n - 1)))
        out.append(("interp-parts/%d" % n, "var s = \"%s\";\nprint(s.len());\n" % "".join("${%d}" % (i % 10) for i in range(n))))
        out.append(("interp-mixed/%d" % n, "var s = \"%s\";\nprint(s.len());\nprint(s[0..6]);\n" % "".join("a${%d}" % (i % 10) for i in range((n + 1) // 2))))
        # every arrangement of literal pieces around the ${} parts: leading / separating / trailing text each count
        # as a part, and a following declaration shows whether the operand stack is where the compiler thinks
        for lead in (0, 1):
            for sep in (0, 1):
                for trail in (0, 1):
                    for total in (n,):
                        k = (total - lead - trail + sep) // (1 + sep)
                        if k < 1:
                            continue
                        body = ("L" if lead else "") + ("s" if sep else "").join("${%d}" % (i % 10) for i in range(k)) + ("T" if trail else "")
                        out.append(("interp-shape/%d%d%d/%d" % (lead, sep, trail, total),
                                    "fn f(v) {\n    var a = \"first\";\n    var s = \"%s\";\n    var b = \"last\";\n    return [a, s.len(), b];\n}\nprint(f(1));\n" % body))
        decls = "\n".join("    var l%d = %d;" % (i, i) for i in range(n))
        out.append(("locals/%d" % n, "fn f() {\n%s\n    return l0 + l%d;\n}\nprint(f());\n" % (decls, n - 1)))
        out.append(("locals-block/%d" % n, "{\n%s\n    print(l0 + l%d);\n}\n" % (decls, n - 1)))
        # captures: a closure two levels down capturing n variables of the two enclosing functions
        uses = " + ".join("l%d" % i for i in range(n))
        outer = "\n".join("    var l%d = %d;" % (i, i) for i in range(200))
        inner = "\n".join("        var l%d = %d;" % (i, i) for i in range(200, n))
        out.append(("captures/%d" % n, "fn f() {\n%s\n    fn g() {\n%s\n        return || %s;\n    }\n    return g();\n}\nprint(f()());\n" % (outer, inner, uses)))
    # bodies whose last byte is an operand: every operand value must be survivable (e.g. an operand
    # equal to an opcode number must not be mistaken for that opcode)
    for k in range(40, 72):
        params = "".join(", p%d" % i for i in range(k))
        args = ", ".join(str(i) for i in range(k))
        out.append(("ctor-empty/%d" % k, "class W {\n    #[constructor]\n    fn new(self%s) {}\n}\nvar w = W.new(%s);\nprint(type(w));\n" % (params, args)))
        decls = "\n".join("    var l%d = %d;" % (i, i) for i in range(k))
        out.append(("last-local/%d" % k, "fn f() {\n%s\n    var g = || l%d;\n    l%d;\n}\nprint(f());\n" % (decls, k - 1, k - 1)))
    for n in (65530, 65540, 65543, 65544, 65545, 65546, 65547, 65550):
        body = "\n".join("%d;" % (i + 100000) for i in range(n - 8))
        out.append(("constants/%d" % n, "%s\nprint(%d);\nprint(%d + 1);\n" % (body, 100000 + n - 9, 100000)))
    return out
