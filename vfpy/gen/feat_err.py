"""error-report programs for C17: one statement per line; the generator chooses the failing line, the
call chain (functions, methods, static methods, lambdas, module functions, module bodies, fibers)
and the failure (each built-in error class from an operator / native / explicit throw, user error
instances, plain values, host natives failing with each ErrorKind)."""

FAILURES = [
    "nil + 1", "1 < \"x\"", "-\"s\"", "nil()", "\"a\".len(1)", "[1, 2].push()", "type()", "~nil", "\"a\" + 1", "[1][\"k\"]",
    "({[1]: 2})", "1.5..2", "\"x\".to_num()", "\"abc\".find(\"\", 0)", "String.from_utf8([255])", "0..(0 / 0)", "[1].derives(5)",
    "[1][5]", "\"abc\"[7]", "(1, 2)[-3]", "\"é\"[1]", "[1, 2][0..9]",
    "undefined_name", "nil.x", "(1).nope()", "\"s\".missing", "Vec.nope()",
    "[].pop()", "Fiber.yield(1)",
]
FAIL_STMTS = [
    "undefined_target = 1;", "var q = 5; q.field = 1;", "import \"no_such_module\";", "throw \"text\";", "throw 42;", "throw [1, 2];",
    "throw nil;", "throw Error.new(\"boom\");", "throw MyErr.new(\"custom\");", "throw (1, \"t\");", "throw MyErr;", "throw Plain.new();",
    "throw \"two\\nlines\";",
    "throw ParseErr.new(\"bad digit in '12x'\");", "throw DigitErr.new(\"x\");", "throw KindErr.new([1, 2]);", "throw SlotErr.new(\"slot 9\");",
    "throw RunErr.new(\"ran out\");", "throw NameErr2.new(\"who\");", "throw AttrErr2.new(\"no such\");", "throw ImpErr2.new(\"cannot import\");",
    "throw ValueError.new(\"plain value error\");", "throw StopIter.new();", "throw ParseErr;",
]
HOST = ["host_fail(%d, \"host says %d\");" % (k, k) for k in range(8)]

PRELUDE = '''#[derive(Error)]
class MyErr {
    #[constructor]
    fn new(self, m) {
        super.new(m);
    }
}
#[constructor(new)]
class Plain {}
#[derive(ValueError)]
class ParseErr {
    #[constructor]
    fn new(self, m) {
        super.new(m);
    }
}
#[derive(ParseErr)]
class DigitErr {
    #[constructor]
    fn new(self, m) {
        super.new("digit: " + m);
    }
}
#[derive(TypeError)]
class KindErr {
    #[constructor]
    fn new(self, m) {
        super.new(m);
    }
}
#[derive(IndexError)]
class SlotErr {
    #[constructor]
    fn new(self, m) {
        super.new(m);
    }
}
#[derive(RuntimeError)]
class RunErr {
    #[constructor]
    fn new(self, m) {
        super.new(m);
    }
}
#[derive(NameError)]
class NameErr2 {
    #[constructor]
    fn new(self, m) {
        super.new(m);
    }
}
#[derive(AttributeError)]
class AttrErr2 {
    #[constructor]
    fn new(self, m) {
        super.new(m);
    }
}
#[derive(ImportError)]
class ImpErr2 {
    #[constructor]
    fn new(self, m) {
        super.new(m);
    }
}
'''


def failing_statement(r, natives):
    c = r.below(100)
    if c < 55:
        e = r.choice(FAILURES)
        return r.choice(["print(%s);" % e, "var tmp = %s;" % e, "%s;" % e if not e.startswith("(") and not e.startswith("{") else "print(%s);" % e])
    if c < 90 or not natives:
        return r.choice(FAIL_STMTS)
    return r.choice(HOST)


def line_filler(r, k):
    """a statement that does nothing but occupy physical lines: what comes after it must still be reported on its own line.
    Literals broken across lines with interpolation parts before, after and around the break, line breaks inside an
    interpolation's expression and inside a nested literal, expressions and calls spread over lines, comments that
    look like the start of a literal."""
    forms = [
        ["// a comment"], [""], ["print(\"pad\");"], ["var s%d = 1;" % k],
        ["var pad%d = \"multi" % k, "line string\";"],
        ["var pad%d = \"first" % k, "second ${1 + 1} third\";"],
        ["var pad%d = \"a ${2} b" % k, "c\";"],
        ["var pad%d = \"a ${2} b" % k, "c ${3} d\";"],
        ["var pad%d = \"x" % k, "${1} y", "${2} z\";"],
        ["var pad%d = \"" % k, "", "${k0}\";".replace("k0", "7")],
        ["var pad%d = \"a ${" % k, "3 + 4", "} b\";"],
        ["var pad%d = \"o ${\"i" % k, "n ${5}\"} p\";"],
        ["var pad%d = \"o ${\"i ${6}" % k, "n\"} p ${7}\";"],
        ["var pad%d = \"tail" % k, "\" + \"${8}\";"],
        ["var pad%d = [1," % k, "    2,", "    3];"],
        ["print(", "    \"pad\"", ");"],
        ["var pad%d = \"one\\ntwo ${9}\";" % k],
        ["// \"not a literal ${", "// still a comment"],
        ["var pad%d = \"é" % k, "€ ${\"😀\"}", "\"; // trailing comment"],
        ["var pad%d = (1," % k, "", "    \"t", "u ${1}\");"],
    ]
    return list(r.choice(forms))


def program(rng, natives=True):
    r = rng
    L = PRELUDE.strip("\n").split("\n")
    # filler that moves line numbers around
    for _ in range(r.range(0, 4)):
        L += line_filler(r, len(L))
    depth = r.range(0, 5)
    fail = failing_statement(r, natives)
    caught = r.chance(30)
    in_fiber = r.chance(20)
    kinds = [r.choice(["fn", "method", "static", "lambda", "modfn"]) for _ in range(depth)]
    mods = []
    # innermost first: build functions c0 (fails) <- c1 <- ... <- c(depth-1)
    call_inner = None
    names = []
    for i, kind in enumerate(kinds):
        body = fail if i == 0 else "return %s;" % call_inner if r.chance(60) else "var r%d = %s;" % (i, call_inner)
        extra = ["var local%d = %d;" % (i, i)] if r.chance(50) else []
        if r.chance(25):
            extra += line_filler(r, 1000 + i * 10 + len(L))
        if kind == "fn":
            nm = "fn%d" % i
            L.append("fn %s(a) {" % nm)
            L += ["    " + x for x in extra] + ["    " + body, "    return a;", "}"]
            call_inner = "%s(%d)" % (nm, i)
        elif kind == "method":
            nm = "Cls%d" % i
            L.append("#[constructor(new)]")
            L.append("class %s {" % nm)
            L.append("    fn run(self, a) {")
            L += ["        " + x for x in extra] + ["        " + body, "        return a;", "    }", "}"]
            call_inner = "%s.new().run(%d)" % (nm, i)
        elif kind == "static":
            nm = "Stat%d" % i
            L.append("class %s {" % nm)
            L.append("    #[static]")
            L.append("    fn go(a) {")
            L += ["        " + x for x in extra] + ["        " + body, "        return a;", "    }", "}"]
            call_inner = "%s.go(%d)" % (nm, i)
        elif kind == "lambda":
            nm = "lam%d" % i
            L.append("var %s = |a| {" % nm)
            L += ["    " + x for x in extra] + ["    " + body, "    return a;", "};"]
            call_inner = "%s(%d)" % (nm, i)
        else:
            path = "lib/em%d" % i
            mb = ["// module %s" % path, "var loaded%d = true;" % i]
            if i == 0:
                mb = PRELUDE.strip("\n").split("\n") + mb
            # a module function can only call what it can name: pass the inner callee in
            mb.append("fn work(a, inner) {")
            if i == 0:
                mb += ["    " + x for x in extra] + ["    " + fail, "    return a;", "}"]
            else:
                mb += ["    " + x for x in extra] + ["    return inner();" if r.chance(60) else "    var r = inner();", "    return a;", "}"]
            mods.append((path, "\n".join(mb) + "\n"))
            L.append("import \"%s\" as em%d;" % (path, i))
            prev = call_inner
            call_inner = "em%d.work(%d, %s)" % (i, i, ("|| %s" % prev) if prev else "nil")
    top = call_inner if depth else None
    stmt = ("print(%s);" % top) if top else fail
    if in_fiber:
        L.append("var fbr = Fiber.new(|| {")
        L.append("    " + stmt)
        L.append("    return 1;")
        L.append("});")
        stmt = "print(fbr.call());"
    if caught:
        L.append("try {")
        L.append("    " + stmt)
        L.append("} catch e {")
        L.append("    print(type(e));")
        L.append("    try { print(e.context); } catch e2 { print(\"no context\"); }")
        L.append("}")
        L.append("print(\"after\");")
        if r.chance(50):
            L.append(failing_statement(r, natives))
    else:
        L.append(stmt)
        L.append("print(\"not reached\");")
    return "\n".join(L) + "\n", mods


def finally_trace_program(rng):
    """reports of errors that travelled through finally blocks: recursive and mutually recursive functions whose frames
    all run the same code, with try/finally at every or every other level; and several fibers running one worker
    function, each failing on a different line inside try/finally, suspended by a yield in the finally block while the
    exception is pending, and resumed in a chosen order"""
    r = rng
    L = PRELUDE.strip("\n").split("\n")
    for _ in range(r.range(0, 3)):
        L.append(r.choice(["// pad", "", "print(\"pad\");"]))
    fail = r.choice(["throw \"bottom\";", "nil + 1;", "[1][5];", "throw MyErr.new(\"custom\");", "undefined_name;", "[].pop();", "throw [1, 2];"])
    if r.chance(55):
        shape = r.choice(["self", "self", "mutual", "method", "alternate"])
        depth = r.range(1, 5)
        call = "dive(n - 1);" if r.chance(60) else "var got = dive(n - 1);"
        if shape == "self":
            L += ["fn dive(n) {", "    if n == 0 {", "        " + fail, "    }", "    try {", "        " + call, "    } finally {",
                  "        print(\"leaving ${n}\");", "    }", "    return n;", "}"]
            start = "dive(%d)" % depth
        elif shape == "alternate":
            L += ["fn dive(n) {", "    if n == 0 {", "        " + fail, "    }", "    if n % 2 == 0 {", "        try {", "            " + call,
                  "        } finally {", "            print(\"leaving ${n}\");", "        }", "    } else {", "        " + call, "    }", "    return n;", "}"]
            start = "dive(%d)" % depth
        elif shape == "mutual":
            L += ["fn ping(n) {", "    if n == 0 {", "        " + fail, "    }", "    try {", "        pong(n - 1);", "    } finally {",
                  "        print(\"ping ${n}\");", "    }", "    return n;", "}",
                  "fn pong(n) {", "    if n == 0 {", "        " + fail, "    }", "    var r = ping(n - 1);", "    return r;", "}"]
            start = "ping(%d)" % depth
        else:
            L += ["#[constructor(new)]", "class Diver {", "    fn dive(self, n) {", "        if n == 0 {", "            " + fail, "        }",
                  "        try {", "            self.dive(n - 1);", "        } finally {", "            print(\"leaving ${n}\");", "        }",
                  "        return n;", "    }", "}"]
            start = "Diver.new().dive(%d)" % depth
        where = r.below(4)
        if where == 0:
            L.append("%s;" % start)
        elif where == 1:
            L += ["fn outer() {", "    var x = 1;", "    return %s;" % start, "}", "print(outer());"]
        elif where == 2:
            L += ["var fbr = Fiber.new(|| {", "    return %s;" % start, "});", "print(fbr.call());"]
        else:
            L += ["try {", "    %s;" % start, "} catch e {", "    print(type(e));", "}", "print(\"after\");", fail]
        L.append("print(\"not reached\");")
        return "\n".join(L) + "\n", []
    n = r.range(2, 3)
    tags = ["t%d" % i for i in range(n)]
    fails = [r.choice(["throw \"boom %d\";" % i, "nil + %d;" % i, "[1][%d];" % (i + 5), "throw MyErr.new(\"m%d\");" % i]) for i in range(n)]
    L += ["fn worker(tag) {", "    var local = tag;", "    try {"]
    for i, t in enumerate(tags):
        L += ["        if tag == \"%s\" {" % t, "            " + fails[i], "        }"]
    L += ["        print(\"no failure\");", "    } finally {", "        Fiber.yield(tag);", "        print(\"finally of ${local} resumes\");", "    }", "    return tag;", "}"]
    for i, t in enumerate(tags):
        if r.chance(50):
            L.append("var fb%d = Fiber.new(|| worker(\"%s\"));" % (i, t))
        else:
            L += ["var fb%d = Fiber.new(|| {" % i, "    var r = worker(\"%s\");" % t, "    return r;", "});"]
    for i in r.shuffle(list(range(n))):
        L.append("print(fb%d.call());" % i)
    L.append("fb%d.call();" % r.below(n))
    L.append("print(\"not reached\");")
    return "\n".join(L) + "\n", []


BAD_TOKENS = [")", "}", "]", ";", "= ;", "var ;", "@", "class {", "fn (", "+ ;", ". ;", "1 = 2;", "break;", "return 1;", "super.x;",
              "self;", "#[x] var y;", "else {}", "catch e {}", "import;", "var v = \"bad \\q\";", "|a b| 1;", "{ var a = a; }"]


def compile_error_program(rng):
    """a valid one-statement-per-line program with one bad token injected on a known line"""
    r = rng
    L = []
    for i in range(r.range(2, 9)):
        L.append(r.choice(["var a%d = %d;" % (i, i), "print(\"line %d\");" % i, "// comment %d" % i, "fn f%d(x) { return x; }" % i,
                           "var m%d = \"first" % i, "", "#[constructor(new)] class K%d {}" % i, "for x in 0..2 { print(x); }"]))
        if L[-1].startswith("var m"):
            L.append("second line\";")
    pos = r.range(0, len(L))
    if pos < len(L) and L[pos - 1].startswith("var m") if pos > 0 else False:
        pos += 1
    L.insert(pos, r.choice(BAD_TOKENS))
    if r.chance(50):
        L = [x for _ in range(r.range(1, 3)) for x in line_filler(r, 900 + _)] + L
    for i in range(r.range(0, 3)):
        L.append("print(\"tail %d\");" % i)
    return "\n".join(L) + "\n"


def lambda_trace_program(rng):
    """trace entries of lambdas: nested lambdas, siblings after a lambda that contains lambdas, lambdas inside named
    functions, methods and fiber bodies (each function numbers its own lambdas from 0), and uncaught error instances
    whose context is not a string"""
    r = rng
    L = PRELUDE.strip("\n").split("\n")
    fail = r.choice(["throw \"inner\";", "nil + 1;", "throw Error.new(404);", "throw MyErr.new([\"disk\", 7]);", "throw Error.new(nil);",
                     "throw ParseErr.new((1, 2));", "throw Error.new({\"k\": 1});", "throw Error.new(3.5);", "throw MyErr.new(true);"])
    shape = r.below(5)
    if shape == 0:
        L += ["var outer = || {", "    var first = |a| a;", "    var second = || {", "        var deep = || {", "            " + fail, "        };",
              "        return deep();", "    };", "    return second();", "};", "outer();"]
    elif shape == 1:
        L += ["fn apply(f) {", "    return f();", "}", "var a = || {", "    var unused = || 1;", "    return apply(|| {", "        " + fail, "    });", "};",
              "var b = || 2;", "a();"]
    elif shape == 2:
        L += ["fn named() {", "    var l0 = || 0;", "    var l1 = || {", "        var l10 = || 1;", "        var l11 = || {", "            " + fail, "        };",
              "        return l11();", "    };", "    var l2 = || l1();", "    return l2();", "}", "var top0 = || named();", "top0();"]
    elif shape == 3:
        L += ["#[constructor(new)]", "class K {", "    fn m(self) {", "        var one = || 1;", "        var two = || {", "            " + fail, "        };",
              "        return two();", "    }", "}", "var run = || K.new().m();", "run();"]
    else:
        L += ["var fbr = Fiber.new(|| {", "    var g = || {", "        var h = || {", "            " + fail, "        };", "        return h();", "    };",
              "    return g();", "});", "var caller = || fbr.call();", "caller();"]
    L.append("print(\"not reached\");")
    return "\n".join(L) + "\n", []
