"""error-report programs for C17: one statement per line; the generator chooses the failing line, the
call chain (functions, methods, static methods, lambdas, module functions, module bodies, fibers)
and the failure (each built-in error class from an operator / native / explicit throw, user error
instances, plain values, host natives failing with each ErrorKind)."""

FAILURES = [
    "nil + 1", "1 < \"x\"", "-\"s\"", "nil()", "\"a\".len(1)", "[1, 2].push()", "type()", "~nil", "\"a\" + 1", "[1][\"k\"]",
    "({[1]: 2})", "1.5..2", "\"x\".to_num()", "\"abc\".find(\"\", 0)", "String.from_utf8([255])", "0..(0 / 0)", "[1].derives(5)",
    "[1][5]", "\"abc\"[7]", "(1, 2)[-3]", "\"é\"[1]", "[1, 2][0..9]",
    "undefined_name", "nil.x", "(1).nope()", "\"s\".missing", "Vec.nope()",
    "[].pop()", "Fiber.yield(1)",
]
FAIL_STMTS = [
    "undefined_target = 1;", "var q = 5; q.field = 1;", "import \"no_such_module\";", "throw \"text\";", "throw 42;", "throw [1, 2];",
    "throw nil;", "throw Error.new(\"boom\");", "throw MyErr.new(\"custom\");", "throw (1, \"t\");", "throw MyErr;", "throw Plain.new();",
    "throw \"two\\nlines\";",
]
HOST = ["host_fail(%d, \"host says %d\");" % (k, k) for k in range(8)]

PRELUDE = '''#[derive(Error)]
class MyErr {
    #[constructor]
    fn new(self, m) {
        super.new(m);
    }
}
#[constructor(new)]
class Plain {}
'''


def failing_statement(r, natives):
    c = r.below(100)
    if c < 55:
        e = r.choice(FAILURES)
        return r.choice(["print(%s);" % e, "var tmp = %s;" % e, "%s;" % e if not e.startswith("(") and not e.startswith("{") else "print(%s);" % e])
    if c < 90 or not natives:
        return r.choice(FAIL_STMTS)
    return r.choice(HOST)


def program(rng, natives=True):
    r = rng
    L = PRELUDE.strip("\n").split("\n")
    # filler that moves line numbers around
    for _ in range(r.range(0, 3)):
        L.append(r.choice(["// a comment", "", "var pad%d = \"multi" % len(L), "print(\"pad\");", "var s%d = 1;" % len(L)]))
        if L[-1].startswith("var pad"):
            L.append("line string\";")
    depth = r.range(0, 5)
    fail = failing_statement(r, natives)
    caught = r.chance(30)
    in_fiber = r.chance(20)
    kinds = [r.choice(["fn", "method", "static", "lambda", "modfn"]) for _ in range(depth)]
    mods = []
    # innermost first: build functions c0 (fails) <- c1 <- ... <- c(depth-1)
    call_inner = None
    names = []
    for i, kind in enumerate(kinds):
        body = fail if i == 0 else "return %s;" % call_inner if r.chance(60) else "var r%d = %s;" % (i, call_inner)
        extra = ["var local%d = %d;" % (i, i)] if r.chance(50) else []
        if kind == "fn":
            nm = "fn%d" % i
            L.append("fn %s(a) {" % nm)
            L += ["    " + x for x in extra] + ["    " + body, "    return a;", "}"]
            call_inner = "%s(%d)" % (nm, i)
        elif kind == "method":
            nm = "Cls%d" % i
            L.append("#[constructor(new)]")
            L.append("class %s {" % nm)
            L.append("    fn run(self, a) {")
            L += ["        " + x for x in extra] + ["        " + body, "        return a;", "    }", "}"]
            call_inner = "%s.new().run(%d)" % (nm, i)
        elif kind == "static":
            nm = "Stat%d" % i
            L.append("class %s {" % nm)
            L.append("    #[static]")
            L.append("    fn go(a) {")
            L += ["        " + x for x in extra] + ["        " + body, "        return a;", "    }", "}"]
            call_inner = "%s.go(%d)" % (nm, i)
        elif kind == "lambda":
            nm = "lam%d" % i
            L.append("var %s = |a| {" % nm)
            L += ["    " + x for x in extra] + ["    " + body, "    return a;", "};"]
            call_inner = "%s(%d)" % (nm, i)
        else:
            path = "lib/em%d" % i
            mb = ["// module %s" % path, "var loaded%d = true;" % i]
            if i == 0:
                mb = PRELUDE.strip("\n").split("\n") + mb
            # a module function can only call what it can name: pass the inner callee in
            mb.append("fn work(a, inner) {")
            if i == 0:
                mb += ["    " + x for x in extra] + ["    " + fail, "    return a;", "}"]
            else:
                mb += ["    " + x for x in extra] + ["    return inner();" if r.chance(60) else "    var r = inner();", "    return a;", "}"]
            mods.append((path, "\n".join(mb) + "\n"))
            L.append("import \"%s\" as em%d;" % (path, i))
            prev = call_inner
            call_inner = "em%d.work(%d, %s)" % (i, i, ("|| %s" % prev) if prev else "nil")
    top = call_inner if depth else None
    stmt = ("print(%s);" % top) if top else fail
    if in_fiber:
        L.append("var fbr = Fiber.new(|| {")
        L.append("    " + stmt)
        L.append("    return 1;")
        L.append("});")
        stmt = "print(fbr.call());"
    if caught:
        L.append("try {")
        L.append("    " + stmt)
        L.append("} catch e {")
        L.append("    print(type(e));")
        L.append("    try { print(e.context); } catch e2 { print(\"no context\"); }")
        L.append("}")
        L.append("print(\"after\");")
        if r.chance(50):
            L.append(failing_statement(r, natives))
    else:
        L.append(stmt)
        L.append("print(\"not reached\");")
    return "\n".join(L) + "\n", mods


BAD_TOKENS = [")", "}", "]", ";", "= ;", "var ;", "@", "class {", "fn (", "+ ;", ". ;", "1 = 2;", "break;", "return 1;", "super.x;",
              "self;", "#[x] var y;", "else {}", "catch e {}", "import;", "var v = \"bad \\q\";", "|a b| 1;", "{ var a = a; }"]


def compile_error_program(rng):
    """a valid one-statement-per-line program with one bad token injected on a known line"""
    r = rng
    L = []
    for i in range(r.range(2, 9)):
        L.append(r.choice(["var a%d = %d;" % (i, i), "print(\"line %d\");" % i, "// comment %d" % i, "fn f%d(x) { return x; }" % i,
                           "var m%d = \"first" % i, "", "#[constructor(new)] class K%d {}" % i, "for x in 0..2 { print(x); }"]))
        if L[-1].startswith("var m"):
            L.append("second line\";")
    pos = r.range(0, len(L))
    if pos < len(L) and L[pos - 1].startswith("var m") if pos > 0 else False:
        pos += 1
    L.insert(pos, r.choice(BAD_TOKENS))
    for i in range(r.range(0, 3)):
        L.append("print(\"tail %d\");" % i)
    return "\n".join(L) + "\n"
