"""HashMap histories (C12), iteration (C18) and string operation statements."""
import re


KEYS_EQUAL_GROUPS = [
    ["1", "1.0", "0.5 + 0.5", "3 - 2"], ["0", "-0", "0 * -1", "1 - 1"], ["2", "10 / 5"], ["0.1 + 0.2", "0.30000000000000004"],
    ["\"ab\"", "\"a\" + \"b\"", "\"abc\"[0..2]", "\"${\"a\"}b\""], ["\"\"", "\"x\"[0..0]"], ["\"é\"", "\"\\xe9\"", "\"é€\"[0..2]"],
    ["(1, 2)", "(1, 1 + 1)", "(0.5 + 0.5, 2)"], ["(1, (2, \"x\"))", "(1, (2, \"\" + \"x\"))"], ["()", "()"], ["(1,)", "(3 - 2,)"],
    ["(\"a\", nil, true)", "(\"a\", nil, !false)"], ["(0, 1)", "(-0, 1)"],
    ["true", "!false", "1 == 1"], ["false", "1 == 2"], ["nil", "nil"], ["Vec", "Vec"], ["String", "String"], ["KeyClass", "KeyClass"],
    ["0..3", "(1 - 1)..3"], ["5..1", "5..1"], ["(0..3, 1)", "(0..3, 1)"],
]
KEYS_NAN = ["0 / 0", "(0 / 0, 1)"]
KEYS_UNHASHABLE = ["[1]", "{}", "(1, [2])", "KeyClass.new()", "|| 1", "((), ([],))", "[].iter()", "{1: 2}"]
VALUES = ["1", "2", "\"v\"", "nil", "true", "(1, 2)", "[1]", "\"w\""]


def map_history(rng, nops=None):
    """a whole program: operation history over up to 3 maps"""
    r = rng
    L = ["fn show_set(v) { print(\"<ms>\"); for x in v { print(x); } print(\"</ms>\"); }",
         "fn show_map(m) { print(m.len()); print(\"<ms>\"); for kv in m.items() { print(kv); } print(\"</ms>\"); }",
         "#[constructor(new)] class KeyClass {}"]
    nm = r.range(1, 3)
    maps = ["m%d" % i for i in range(nm)]
    groups = r.sample(KEYS_EQUAL_GROUPS, r.range(3, 7))
    if "KEYS_EXTRA_GROUPS" in globals() and r.chance(50):
        # huge and infinite numbers, permutations of one another, repeated-element pairs: distinct keys whose hashes are
        # likely to be related
        groups = groups[:3] + r.sample(KEYS_EXTRA_GROUPS, r.range(3, 6))
    for m in maps:
        if r.chance(50):
            ents = []
            for _ in range(r.range(0, 4)):
                ents.append("%s: %s" % (r.choice(r.choice(groups)), r.choice(VALUES)))
            if r.chance(10):
                L.append("var %s = nil; try { %s = {%s}; } catch e { print(type(e)); print(e.context); %s = {}; }" % (
                    m, m, ", ".join(ents + ["%s: 1" % r.choice(KEYS_UNHASHABLE)]), m))
            else:
                L.append("var %s = {%s};" % (m, ", ".join(ents)))
        else:
            L.append("var %s = {};" % m)

    def key():
        c = r.below(100)
        if c < 80:
            return r.choice(r.choice(groups))
        if c < 88:
            return r.choice(KEYS_NAN)
        if c < 93:
            # an unhashable key that is, or contains, one of the maps being operated on (formatting the rejected key for
            # the error message looks at the receiver again)
            mm = r.choice(maps)
            return r.choice(["%s", "(1, %s)", "[%s]", "(%s,)", "{1: %s}", "((%s, 2), 3)"]) % mm
        return r.choice(KEYS_UNHASHABLE)

    for _ in range(nops or r.range(6, 40)):
        m = r.choice(maps)
        c = r.below(100)
        if c < 30:
            st = "print(%s.insert(%s, %s));" % (m, key(), r.choice(VALUES))
        elif c < 45:
            st = "print(%s.get(%s));" % (m, key())
        elif c < 58:
            st = "print(%s.has_key(%s));" % (m, key())
        elif c < 70:
            st = "print(%s.remove(%s));" % (m, key())
        elif c < 76:
            st = "print(%s.len());" % m
        elif c < 80:
            st = "print(%s.clear());" % m
        elif c < 86:
            st = "show_map(%s);" % m
        elif c < 90:
            st = "show_set(%s.keys());" % m
        elif c < 93:
            st = "show_set(%s.values());" % m
        elif c < 96 and nm > 1:
            st = "print(%s == %s);" % (m, r.choice(maps))
        else:
            # churn the range cache so that equal-ended ranges become distinct objects
            st = "for q in 0..%d { var rr = (100 + q)..(200 + q); }" % r.range(1, 9)
        if any(("(%s" % mm) in st or ("[%s]" % mm) in st or (": %s}" % mm) in st or ("(1, %s)" % mm) in st or re.search(r"\((insert|get|has_key|remove)\(%s[,)]" % mm, st.replace(".", "(")) for mm in maps):
            # the message would quote a map with several entries, whose print order is unspecified
            L.append("try { %s } catch e { print(type(e)); print(e.context.starts_with(\"Cannot use unhashable value\")); }" % st)
        else:
            L.append("try { %s } catch e { print(type(e)); print(e.context); }" % st)
    for m in maps:
        L.append("show_map(%s);" % m)
    return "\n".join(L) + "\n"


# ---------------------------------------------------------------------------------- iteration

USER_ITERS = '''
#[derive(Iter)]
class Count {
    #[constructor]
    fn new(self, n) { self.i = 0; self.n = n; }
    fn next(self) { if self.i >= self.n { return StopIter.new(); } self.i += 1; return self.i; }
}
#[derive(Iter)]
class Resetting {
    #[constructor]
    fn new(self, items) { self.items = items; self.pos = 0; }
    fn iter(self) { self.pos = 0; return self; }
    fn next(self) { if self.pos >= self.items.len() { return StopIter.new(); } self.pos += 1; return self.items[self.pos - 1]; }
}
#[derive(Iter)]
class Handing {
    #[constructor]
    fn new(self, n) { self.n = n; }
    fn iter(self) { return Count.new(self.n); }
}
class Plain {
    #[constructor]
    fn new(self, items) { self.items = items; }
    fn iter(self) { return self.items.iter(); }
}
#[derive(Iter), constructor(new)]
class FieldNext {}
fn mk_fieldnext(n) {
    // stepping is done by a per-instance closure kept in the field `next`; the class itself has no such method
    var o = FieldNext.new();
    var i = 0;
    o.next = || { if i >= n { return StopIter.new(); } i = i + 1; return i * 3; };
    return o;
}
fn mk_overnext(n) {
    // the class has a next method, this instance overrides it with a field
    var o = Count.new(n);
    var k = 0;
    o.next = || { if k >= n { return StopIter.new(); } k = k + 1; return [\"field\", k]; };
    return o;
}
#[derive(Iter)]
class Early {
    #[constructor]
    fn new(self) { self.k = 0; }
    fn next(self) { self.k += 1; if self.k == 3 { return StopIter.new(); } return self.k * 10; }
}
'''

ITERABLES = ["[1, 2, 3, 4]", "[]", "[\"a\"]", "(1, \"b\", nil)", "()", "0..4", "3..0", "2..2", "-2..1", "\"héy€\"", "\"\"", "\"😀a\"",
             "Count.new(3)", "Count.new(0)", "Resetting.new([5, 6, 7])", "Handing.new(2)", "Plain.new([8, 9])", "Early.new()",
             "[1, 2, 3].iter()", "(4..7).iter()", "\"ab\".iter()", "(1, 2).iter()", "mk_fieldnext(3)", "mk_overnext(2)", "mk_fieldnext(0)"]
CHAINABLE = ["[1, 2, 3, 4, 5]", "0..6", "5..0", "(1, 2, 3)", "\"abc\"", "Count.new(4)", "Resetting.new([1, 2, 3])", "Handing.new(3)",
             "Early.new()", "[]", "mk_fieldnext(4)", "mk_overnext(3)"]
MAPS = ["|v| v", "|v| [v]", "|v| \"<${v}>\"", "|v| (v, v)", "|v| v == 2"]
MAPS_NUM = ["|v| v * 2", "|v| v + 1", "|v| -v"]
FILTERS = ["|v| true", "|v| false", "|v| v != 2", "|v| v == v"]
FILTERS_NUM = ["|v| v > 1", "|v| v % 2 == 0"]


UTF8_EDGE = ["\u007f", "\u0080", "\u07ff", "\u0800", "\u0fff", "\u1000", "\ud7ff", "\ue000", "\uffff", "\U00010000", "\U0010ffff",
             "a", "\u00e9", "\u20ac", "\U0001f600", "\u0e01", "\u0928"]


def edge_string(r):
    """a string literal over characters sitting on every UTF-8 length / lead-byte boundary"""
    return "\"" + "".join(r.choice(UTF8_EDGE) for _ in range(r.range(1, 5))) + "\""


def iter_program(rng):
    r = rng
    L = [USER_ITERS]
    for _ in range(r.range(0, 2)):
        s = edge_string(r)
        k = r.below(4)
        if k == 0:
            L.append("for ch in %s { print([ch, ch.len()]); }" % s)
        elif k == 1:
            L.append("print(%s.iter().map(|c| c.to_code_points()).collect());" % s)
        elif k == 2:
            L.append("print(%s.iter().filter(|c| c.len() > %d).map(|c| \"<${c}>\").collect());" % (s, r.below(4)))
        else:
            L.append("{ var it = %s.iter(); print(it.next()); print(it.next()); for rest in it { print(rest.to_bytes()); } }" % s)
    for _ in range(r.range(0, 2)):
        k = r.below(3)
        if k == 0:
            # an iterator that has ended stays ended: asked again directly, by a second loop, by a second collect
            src = r.choice(["[1, 2, 3]", "(4, 5)", "0..3", "3..0", "2..2", "-1..2", "\"ab\"", "Count.new(2)", "[1, 2, 3].iter().map(|v| v * 2)",
                            "(0..4).iter().filter(|v| v % 2 == 0)", "(5..2).iter().map(|v| [v])", "[]", "\"\""])
            L.append("{ var it = (%s).iter(); var n = 0; for x in it { n = n + 1; } print(n);" % src)
            L.append("  for k in 0..3 { var again = it.next(); print(type(again) == StopIter); }")
            L.append("  var m = 0; for x in it { m = m + 1; if m > 5 { break; } } print(m);")
            L.append("  var m2 = 0; for x in it.map(|v| v) { m2 = m2 + 1; if m2 > 5 { break; } } print(m2); print(type(it.next()) == StopIter); }")
        elif k == 1:
            # every stage of a chain logs its calls: the order in which stages see the elements is part of the meaning
            src = r.choice(["[1, 2, 3, 4, 5, 6]", "0..6", "(3, 1, 2)", "\"abcd\"", "Count.new(5)"])
            chain = "(%s).iter()" % src
            for si in range(r.range(2, 4)):
                if r.chance(50):
                    chain += ".filter(|v| { log.push([%d, v]); return %s; })" % (si, r.choice(["true", "v != 2", "v != \"b\"", "log.len() % 2 == 0", "v == v"]))
                else:
                    chain += ".map(|v| { log.push([%d, v]); return %s; })" % (si, r.choice(["v", "[v]", "(v, %d)" % si]))
            end = r.choice([".collect()", ".reduce(|a, v| { log.push([\"r\", v]); a.push(v); return a; }, [])"])
            L.append("{ var log = []; print(%s%s); print(log); }" % (chain, end))
        else:
            # guard-then-test: a later filter may rely on what an earlier one has excluded
            L.append("print([1, \"a\", 3, nil, 5, [6], 0.5].iter().filter(|v| type(v) == Num).filter(|v| v > %s).%s);" % (
                r.choice(["2", "0", "4"]), r.choice(["collect()", "map(|v| v * 2).collect()", "filter(|v| v < 5).collect()"])))
            L.append("try { print([1, \"a\", 3].iter().filter(|v| v > 0).filter(|v| type(v) == Num).collect()); } catch e { print(type(e)); print(e.context); }")
    for _ in range(r.range(3, 9)):
        c = r.below(100)
        if c < 25:
            it = r.choice(ITERABLES)
            body = ["print(x);"]
            k = r.below(100)
            if k < 20:
                body.insert(0, "if x == %s { break; }" % r.choice(["2", "\"b\"", "6", "\"y\""]))
            elif k < 40:
                body.insert(0, "if x == %s { continue; }" % r.choice(["2", "\"b\"", "6", "3"]))
            L.append("for x in %s { %s }" % (it, " ".join(body)))
        elif c < 50:
            src = r.choice(CHAINABLE)
            numeric = src in ("[1, 2, 3, 4, 5]", "0..6", "5..0", "(1, 2, 3)", "Count.new(4)", "Resetting.new([1, 2, 3])", "Handing.new(3)", "Early.new()", "[]")
            chain = src + ".iter()"
            for _ in range(r.range(1, 4)):
                if r.chance(55):
                    chain += ".map(%s)" % r.choice(MAPS + (MAPS_NUM if numeric else []))
                    numeric = numeric and chain.endswith(tuple(")") ) and any(chain.endswith(".map(%s)" % m) for m in MAPS_NUM + ["|v| v"])
                else:
                    chain += ".filter(%s)" % r.choice(FILTERS + (FILTERS_NUM if numeric else []))
            end = r.below(3)
            if end == 0:
                L.append("print(%s.collect());" % chain)
            elif end == 1:
                L.append("print(%s.reduce(|acc, v| { acc.push(v); return acc; }, [\"init\"]));" % chain)
            else:
                L.append("for y in %s { print(y); }" % chain)
        elif c < 56:
            # adapters called directly on user iterables (Iter.map / filter / collect / reduce go through iter())
            obj = r.choice(["Resetting.new([1, 2, 3])", "Handing.new(3)", "Count.new(3)", "Early.new()"])
            L.append("{ var u = %s;" % obj)
            for _ in range(r.range(1, 3)):
                k = r.below(5)
                if k == 0:
                    L.append("  print(u.collect());")
                elif k == 1:
                    L.append("  print(u.map(%s).collect());" % r.choice(MAPS + MAPS_NUM))
                elif k == 2:
                    L.append("  print(u.filter(%s).collect());" % r.choice(FILTERS + FILTERS_NUM))
                elif k == 3:
                    L.append("  print(u.reduce(|a, v| a + v, 0));")
                else:
                    L.append("  for z in u { print(z); }")
            L.append("}")
        elif c < 59 and r.chance(60):
            # an iterable that only its iterator refers to, stepped across allocations and across
            # evaluation of more than eight other ranges (the VM keeps the last eight ranges alive)
            lo = r.range(0, 3)
            hi = lo + r.range(2, 5)
            src = r.choice(["%d..%d" % (lo, hi), "%d..%d" % (hi, lo), "[%d, %d, %d]" % (lo, hi, lo + 7),
                            "(%d, %d)" % (lo, hi), "\"p\u00e9q\"", "Count.new(%d)" % hi])
            press = "for k in %d..%d { var r = k..(k + %d); var s = \"abcdefghijklmnop\"[k..(k + 2)]; }" % (
                r.range(0, 2), r.range(10, 13), r.range(20, 30))
            if r.chance(50):
                L.append("for x in %s { %s print([\"step\", x]); }" % (src, press))
            else:
                L.append("{ var it = (%s).iter(); %s print(it.next()); %s print(it.next()); "
                         "for x in it { print([\"rest\", x]); } }" % (src, press, press))
        elif c < 62:
            # one shared iterator consumed by nested / consecutive loops
            src = r.choice(["[1, 2, 3, 4, 5, 6]", "0..7", "\"abcdef\"", "Count.new(6)", "(1, 2, 3, 4)"])
            L.append("{ var shared = %s.iter();" % src)
            L.append("  for a in shared { print([\"outer\", a]); for b in shared { print([\"inner\", b]); if b == %s { break; } } }" % r.choice(["3", "\"c\"", "99"]))
            L.append("  print(shared.next()); print(shared.next().derives(StopIter)); }")
        elif c < 72:
            # independent nested loops over the same iterable
            src = r.choice(["[1, 2]", "0..2", "\"xy\"", "(7, 8)", "Resetting.new([1, 2])", "Plain.new([1, 2])"])
            L.append("{ var coll = %s; for a in coll { for b in coll { print([a, b]); } } }" % src)
        elif c < 84:
            # mutation during iteration
            k = r.below(4)
            if k == 0:
                L.append("{ var v = [1, 2, 3]; for x in v { print(x); if x < 3 { v.push(x + 10); } if v.len() > 8 { break; } } print(v); }")
            elif k == 1:
                L.append("{ var v = [1, 2, 3, 4]; for x in v { print(x); v.pop(); } print(v); }")
            elif k == 2:
                L.append("{ var v = [1, 2, 3]; for x in v { v[2] = x * 100; print(x); } print(v); }")
            else:
                L.append("{ var v = [1, 2, 3]; var it = v.iter(); print(it.next()); v.pop(); v.pop(); print(it.next().derives(StopIter)); v.push(9); v.push(8); print(it.next()); }")
        elif c < 92:
            # return from inside a loop, iterator reuse after break
            L.append("fn first_big(c) { for x in c { if x > %s { return x; } } return \"none\"; }" % r.choice(["1", "3", "100"]))
            L.append("print(first_big(%s)); print(first_big(%s));" % (r.choice(["[1, 2, 5]", "0..9", "Count.new(5)"]), r.choice(["[]", "(0, 1)", "Early.new()"])))
            L.append("{ var it = [1, 2, 3, 4].iter(); for x in it { if x == 2 { break; } } for x in it { print([\"rest\", x]); } }")
        else:
            L.append("try { for x in %s { print(x); } } catch e { print(type(e)); print(e.context); }" % r.choice(["5", "nil", "KeyLess.new()", "true", "|| 1"]).replace("KeyLess.new()", "Plain"))
    return "\n".join(L) + "\n"


def iter_mutation_program(rng):
    """random histories of vector mutation (push / pop / pop-all / element store) interleaved with steps of several
    live iterators and for loops over the same vector: the cursor may end up anywhere relative to the length"""
    r = rng
    L = ["var v = [%s];" % ", ".join(str(i) for i in range(r.range(0, 6))), "var its = [v.iter(), v.iter()];",
         "fn step(k) { var x = its[k].next(); if type(x) == StopIter { print([k, \"stop\"]); } else { print([k, x]); } }"]
    for _ in range(r.range(6, 20)):
        c = r.below(100)
        if c < 30:
            L.append("step(%d);" % r.below(2))
        elif c < 45:
            L.append("v.push(%d);" % r.range(10, 99))
        elif c < 65:
            L.append("if v.len() > 0 { v.pop(); }")
        elif c < 72:
            L.append("while v.len() > 0 { v.pop(); }")
        elif c < 80:
            L.append("its[%d] = v.iter();" % r.below(2))
        elif c < 90:
            body = r.choice(["v.pop(); if v.len() > 0 { v.pop(); }", "if v.len() > 1 { v.pop(); v.pop(); }", "while v.len() > 0 { v.pop(); }",
                             "v.pop(); v.push(x + 100); v.pop();", "if v.len() < 9 { v.push(x); } else { while v.len() > 0 { v.pop(); } }"])
            L.append("{ var n = 0; for x in v { print([\"loop\", x]); %s n = n + 1; if n > 12 { break; } } print(v); }" % body)
        else:
            L.append("print(v.iter().map(|x| { if v.len() > %d { v.pop(); } return x; }).collect());" % r.below(3))
    L.append("step(0); step(1); print(v);")
    return "\n".join(L) + "\n"


# ---------------------------------------------------------------------------------- statement mixins

def s_map(g, depth):
    g.uses_ms = True
    r = g.r
    v = g.pick_var("map")
    if v is None:
        name = g.fresh("mp")
        g.declare(name, "map")
        return ["var %s = {%s};" % (name, ", ".join("%s: %s" % (k, r.choice(VALUES)) for k in r.sample(["1", "\"a\"", "(1, 2)", "nil", "true"], r.range(0, 3))))]
    c = r.below(5)
    k = r.choice(r.choice(KEYS_EQUAL_GROUPS[:16]))
    if c == 0:
        return ["print(%s.insert(%s, %s));" % (v.name, k, r.choice(VALUES))]
    if c == 1:
        return ["print(%s.get(%s));" % (v.name, k)]
    if c == 2:
        return ["print(%s.remove(%s));" % (v.name, k)]
    if c == 3:
        return ["show_map(%s);" % v.name]
    return ["print(%s.has_key(%s));" % (v.name, k)]


def s_strop(g, depth):
    r = g.r
    s = r.choice(['"hello world"', '"a,b,,c"', '"héllo"', '"€uro😀"', '""', '"aXbXc"'])
    op = r.choice(["len()", "count_chars()", "split(\",\")", "split(\"X\")", "find(\"l\", 0)", "find(\"o\", 5)", "replace(\"l\", \"L\")",
                   "starts_with(\"h\")", "ends_with(\"c\")", "to_bytes()", "to_code_points()", "is_alpha()", "is_digit()", "to_num()",
                   "char_byte_index(1)", "char_byte_index(-1)"])
    return ["try { print(%s.%s); } catch e { print(type(e)); print(e.context); }" % (s, op)]


def s_itchain(g, depth):
    r = g.r
    src = r.choice(["[1, 2, 3, 4]", "0..5", "(3, 2, 1)"])
    chain = src + ".iter()"
    for _ in range(r.range(1, 3)):
        chain += r.choice([".map(|v| v * 2)", ".filter(|v| v > 1)", ".map(|v| v + 1)", ".filter(|v| v % 2 == 0)"])
    return ["print(%s.collect());" % chain]


def map_size_programs(rng):
    """maps of every size class - literals from 0 to the 255-entry limit and one beyond, with distinct, repeated and
    mixed-kind keys, and maps grown and shrunk by insert / remove across the table's growth points - probed by len, get,
    has_key and an order-free sum"""
    r = rng
    out = []
    sizes = [0, 1, 2, 7, 8, 9, 31, 63, 64, 65, 100, 126, 127, 128, 129, 130, 191, 192, 200, 254, 255, 256]
    for n in sizes:
        for style in ("num", "str", "mixed", "dups"):
            def key(i):
                if style == "num":
                    return str(i)
                if style == "str":
                    return "\"k%d\"" % i
                if style == "dups":
                    return str(i % max(1, (n + 1) // 2))
                return [str(i), "\"s%d\"" % i, "(%d, \"t\")" % i, "%d.5" % i][i % 4]
            lit = "{" + ", ".join("%s: %d" % (key(i), i * i) for i in range(n)) + "}"
            probes = sorted(set([0, 1, n // 2, n - 2, n - 1, n]) & set(range(0, n + 1)))
            L = ["var m = %s;" % lit, "print(m.len());"]
            for i in probes:
                L.append("print([m.has_key(%s), m.get(%s)]);" % (key(i), key(i)))
            L += ["var total = 0;", "for v in m.values() { total = total + v; }", "print(total);", "print(m.keys().len());",
                  "var after = \"intact\";", "print(after);"]
            out.append(("mapsize/%s/%d" % (style, n), "\n".join(L) + "\n"))
    for n in (10, 100, 200, 400, 1000):
        step = r.choice([1, 3, 7])
        L = ["var m = {};", "for i in 0..%d { m.insert(i * %d, [i]); }" % (n, step), "print(m.len());",
             "for i in 0..%d { if i %% 3 == 0 { m.remove(i * %d); } }" % (n, step), "print(m.len());",
             "var hit = 0; for i in 0..%d { if m.has_key(i * %d) { hit = hit + m.get(i * %d)[0]; } }" % (n, step, step), "print(hit);",
             "for i in 0..%d { m.insert(\"s${i}\", i); }" % n, "print(m.len());", "print(m.get(\"s%d\"));" % (n - 1)]
        out.append(("mapgrow/%d" % n, "\n".join(L) + "\n"))
    return out


def iter_progress_program(rng):
    """iterators that have moved on before collect / reduce / a second loop takes over (after explicit next() calls, after a
    loop left by break, after an earlier collect), for every kind of iterator; ranges whose bounds lie around 2^53 and 2^63"""
    r = rng
    L = [USER_ITERS]
    srcs = ["[10, 20, 30, 40, 50]", "(\"a\", \"b\", \"c\", \"d\")", "0..6", "6..0", "\"h\u00e9llo\"", "Count.new(5)", "[1, 2, 3, 4].iter().map(|v| v * 2)",
            "(0..8).iter().filter(|v| v % 2 == 0)", "mk_fieldnext(4)"]
    for _ in range(r.range(2, 5)):
        src = r.choice(srcs)
        k = r.below(4)
        L.append("{ var it = (%s).iter();" % src)
        if k == 0:
            L.append("  print(it.next()); print(it.next());")
        elif k == 1:
            L.append("  for x in it { if x == %s { break; } }" % r.choice(["20", "\"b\"", "2", "4", "\"l\"", "6"]))
        elif k == 2:
            L.append("  print(it.collect());")
        else:
            L.append("  var n = 0; for x in it { n = n + 1; if n == 3 { break; } }")
        end = r.below(4)
        if end == 0:
            L.append("  print(it.collect()); print(it.collect()); }")
        elif end == 1:
            L.append("  print(it.reduce(|a, v| { a.push(v); return a; }, [\"rest\"])); }")
        elif end == 2:
            L.append("  print(it.map(|v| [v]).collect()); print(type(it.next()) == StopIter); }")
        else:
            L.append("  for x in it { print([\"rest\", x]); } print(it.collect()); }")
    for _ in range(r.range(1, 3)):
        base = r.choice(["9007199254740990", "9007199254740992", "-9007199254740996", "4503599627370494", "9223372036854775800", "-9223372036854775806"])
        d = r.choice(["4", "6", "-5"])
        L.append("{ var n = 0; var last = nil; for x in %s..(%s + %s) { n = n + 1; last = x; if n > 20 { break; } } print([n, last]); }" % (base, base, d))
        L.append("{ var it = (%s..(%s + 3)).iter().map(|v| v - %s); var got = []; for k in 0..6 { var e = it.next(); if type(e) == StopIter { break; } got.push(e); } print(got); }" % (base, base, base))
    return "\n".join(L) + "\n"


KEYS_EXTRA_GROUPS = [
    ["100000000000000000000", "10000000000 * 10000000000"], ["200000000000000000000", "2 * 100000000000000000000"], ["400000000000000000000"],
    ["9223372036854775808", "9223372036854775807 + 1"], ["-9223372036854775808"], ["18446744073709551616"], ["1 / 0", "2 / 0"], ["-1 / 0"],
    ["(2, 1)"], ["(3, 3)"], ["(4, 4)"], ["(5, 5)"], ["(\"x\", (1, 2))"], ["((1, 2), \"x\")"], ["(1, 2, 3)"], ["(3, 2, 1)"], ["(1, 3, 2)"],
    ["(0.5, 0.25)"], ["(0.25, 0.5)"], ["(\"a\", \"b\")"], ["(\"b\", \"a\")"],
]
