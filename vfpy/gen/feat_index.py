"""exhaustive small-scope index sweep: every sequence kind x every integer index and every range a..b with bounds
from below -len to above len (all four sign combinations), plus non-integral / infinite / ill-typed indexes and
index assignment; each access prints its value or the error class and context"""

SEQS = ["[]", "[10]", "[10, 20, 30]", "[10, 20, 30, 40, 50]", "()", "(7,)", "(7, 8, 9, 6)", "\"\"", "\"a\"", "\"abcde\"", "\"hél€o\"",
        "0..4", "3..-2"]
ODD = ["0.5", "-0.5", "1 / 0", "-(1 / 0)", "0 / 0", "nil", "\"1\"", "true", "[0]", "(0..1, 1)", "1000000000000000000", "-1000000000000000000", "2.0", "-0", "-9223372036854775808", "-9223372036854775809", "-10000000000000000000", "9223372036854775807",
       "10000000000000000000", "-4611686018427387904", "4611686018427387904"]


def length_of(seq):
    if seq.startswith("["):
        return 0 if seq == "[]" else seq.count(",") + 1
    if seq.startswith("("):
        return 0 if seq == "()" else len([x for x in seq.strip("()").split(",") if x.strip()])
    if seq.startswith('"'):
        return len(seq[1:-1].encode("utf-8"))
    return 5


def programs(rng, per=220, sample=None):
    lines = []
    for si, seq in enumerate(SEQS):
        n = length_of(seq)
        bounds = list(range(-n - 2, n + 3))
        idx = [str(b) for b in bounds] + ODD
        for a in bounds:
            for b in bounds:
                idx.append("%d..%d" % (a, b))
        for o in ODD[:6]:
            idx.append("(%s)..2" % o)
            idx.append("0..(%s)" % o)
        for i in idx:
            lines.append((si, "try { print(s%d[%s]); } catch e { print(type(e)); print(e.context); }" % (si, i)))
        if seq.startswith("[") or seq.startswith("(") or seq.startswith('"'):
            for i in [str(b) for b in bounds] + ODD[:8] + ["0..1", "-1..0"]:
                lines.append((si, "try { var c%d = %s; c%d[%s] = 99; print(c%d); } catch e { print(type(e)); print(e.context); }" % (si, seq, si, i, si)))
    lines = rng.shuffle(lines)
    if sample is not None:
        lines = lines[:sample]
    prelude = "".join("var s%d = %s;\n" % (i, s) for i, s in enumerate(SEQS))
    out = []
    for k in range(0, len(lines), per):
        out.append(("index/%d" % (k // per), prelude + "\n".join(l for _, l in lines[k:k + per]) + "\n"))
    return out
