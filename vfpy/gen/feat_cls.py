"""class generation for C07: hierarchies with overriding, fields shadowing methods, methods stored in
fields and variables, static methods and Self, default and explicit constructors, super calls,
rebinding of names, classes in local scopes, every call arity, unknown members."""
from .progs import ClassInfo


def s_cls(g, depth):
    r = g.r
    if getattr(g, "try_ctx", [[]])[-1]:
        return g.s_print(depth)
    name = g.fresh("K")
    parents = [c for c in g.classes if c.visible_at <= len(g.scopes) and c.fdepth == g.fdepth or c.fdepth == 0]
    parent = r.choice(parents) if parents and r.chance(65) else None
    nfields = r.range(0, 2)
    fields = ["f%d" % r.range(0, 3) for _ in range(nfields)]
    fields = list(dict.fromkeys(fields))
    # constructor
    ctor_kind = r.weighted([("explicit", 6), ("default", 3), ("none", 1 if parent is not None else 0)])
    attrs = []
    if parent is not None:
        attrs.append("derive(%s)" % parent.name)
    ctor = None
    ctor_arity = 0
    L = []
    body = []
    if ctor_kind == "default":
        ctor = r.choice(["new", "make", "create"])
        attrs.append("constructor(%s)" % ctor)
        fields = []
    elif ctor_kind == "explicit":
        ctor = r.choice(["new", "init", "build"])
        ctor_arity = len(fields)
        params = ["p%d" % i for i in range(ctor_arity)]
        cb = []
        if parent is not None and parent.ctor is not None and r.chance(70):
            cb.append("super.%s(%s);" % (parent.ctor, ", ".join(r.choice(["1", "\"s\"", "p0" if params else "2"]) for _ in range(parent.ctor_arity))))
            inherited_init = True
        else:
            inherited_init = False
        for f, p in zip(fields, params):
            cb.append("self.%s = %s;" % (f, p))
        if r.chance(30):
            cb.append("if false { return; }")
        cb.append("print(\"init %s\");" % name)
        body.append("#[constructor]")
        body.append("fn %s(self%s) {" % (ctor, "".join(", " + p for p in params)))
        body += g.ind(cb)
        body.append("}")
    elif parent is not None:
        ctor = None
    methods = {}
    statics = {}
    pm = parent.all_methods() if parent is not None else {}
    # the fields reliably present on an instance
    sure_fields = list(fields)
    if ctor_kind == "explicit" and parent is not None and 'super.' in "\n".join(body):
        sure_fields = list(dict.fromkeys(parent.all_fields() + fields))
    info = ClassInfo(name, parent, fields, methods, statics, ctor, ctor_arity)
    info.sure_fields = sure_fields
    info.visible_at = len(g.scopes)
    info.fdepth = g.fdepth
    info.has_instances = ctor is not None
    nm = r.range(1, 4)
    for i in range(nm):
        if pm and r.chance(45):
            mname = r.choice(sorted(pm))       # override
            arity = pm[mname]
        else:
            mname = "m%d" % r.range(0, 5)
            arity = r.range(0, 2)
        if mname in methods:
            continue
        params = ["a%d" % k for k in range(arity)]
        mb = []
        parts = ["\"%s.%s\"" % (name, mname)]
        for f in sure_fields[:2]:
            parts.append("self.%s" % f)
        for p in params:
            parts.append(p)
        if mname in pm and r.chance(60):
            parts.append("super.%s(%s)" % (mname, ", ".join(params)))
        if r.chance(25):
            mb.append("self.count = %s;" % r.choice(["1", "[a0]" if params else "2"]))
        if r.chance(20) and methods:
            other = r.choice(sorted(methods))
            if methods[other] == 0:
                parts.append("self.%s()" % other)
        mb.append("return [%s];" % ", ".join(parts))
        body.append("fn %s(self%s) {" % (mname, "".join(", " + p for p in params)))
        body += g.ind(mb)
        body.append("}")
        methods[mname] = arity
    pstat = {}
    q = parent
    while q is not None:
        for k, v in q.statics.items():
            pstat.setdefault(k, v)
        q = q.parent
    if pstat and r.chance(60):
        sname = r.choice(sorted(pstat))
        sar = pstat[sname]
        sp = ["x"] if sar else []
        body.append("#[static]")
        body.append("fn %s(%s) {" % (sname, ", ".join(sp)))
        body += g.ind(["return [\"%s.%s via super\", Self, super.%s(%s)%s];" % (name, sname, sname, ", ".join(sp),
                                                                                  ", super.%s" % sname if r.chance(30) else "")])
        body.append("}")
        statics[sname] = sar
    elif r.chance(50):
        sname = "s%d" % r.range(0, 2)
        sar = r.range(0, 1)
        sp = ["x"] if sar else []
        sb = []
        if ctor is not None and r.chance(60):
            args = ", ".join((sp[0] if sp else r.choice(["1", "\"z\""])) for _ in range(ctor_arity))
            sb.append("return Self.%s(%s);" % (ctor, args))
        else:
            sb.append("return [\"%s.%s\", Self%s];" % (name, sname, "".join(", " + p for p in sp)))
        body.append("#[static]")
        body.append("fn %s(%s) {" % (sname, ", ".join(sp)))
        body += g.ind(sb)
        body.append("}")
        statics[sname] = sar
    if attrs:
        L.append("#[%s]" % ", ".join(attrs))
    L.append("class %s {" % name)
    L += g.ind(body)
    L.append("}")
    g.classes.append(info)
    g.declare(name, "class:" + name, const=True)
    # use it right away
    for _ in range(r.range(1, 3)):
        L += use_class(g, info)
    return L


def find_class(g, name):
    for c in g.classes:
        if c.name == name:
            return c
    return None


def inst_expr(g, info):
    """an expression creating an instance, or None"""
    c = info
    while c is not None and c.ctor is None:
        c = None  # constructors are not inherited by the metaclass
    if info.ctor is None:
        return None
    args = ", ".join(g.r.choice(["1", "2.5", "\"a\"", "[1]", "nil"]) for _ in range(info.ctor_arity))
    return "%s.%s(%s)" % (info.name, info.ctor, args)


def use_class(g, info):
    r = g.r
    L = []
    e = inst_expr(g, info)
    if e is None:
        L.append("print(%s);" % info.name)
        L.append("try { print(%s.new()); } catch e { print(type(e)); }" % info.name)
        return L
    v = g.fresh("o")
    L.append("var %s = %s;" % (v, e))
    g.declare(v, "inst:" + info.name, const=True)
    L += use_instance(g, v, info)
    return L


def use_instance(g, v, info):
    r = g.r
    L = []
    ms = info.all_methods()
    for _ in range(r.range(1, 4)):
        c = r.below(100)
        if c < 40 and ms:
            m = r.choice(sorted(ms))
            args = ", ".join(r.choice(["1", "\"x\"", "nil", "[2]"]) for _ in range(ms[m]))
            form = r.below(3)
            if form == 0:
                L.append("print(%s.%s(%s));" % (v, m, args))
            elif form == 1:
                f = g.fresh("bm")
                L.append("var %s = %s.%s;" % (f, v, m))
                L.append("print(%s(%s));" % (f, args))
                L.append("print(%s.%s(%s) == %s(%s));" % (v, m, args, f, args))
            else:
                L.append("%s.held = %s.%s;" % (v, v, m))
                L.append("print(%s.held(%s));" % (v, args))
        elif c < 50 and ms:
            m = r.choice(sorted(ms))
            bad = ms[m] + r.choice([1, 2]) if r.chance(70) or ms[m] == 0 else ms[m] - 1
            args = ", ".join("0" for _ in range(bad))
            L.append("try { print(%s.%s(%s)); } catch e { print(type(e)); print(e.context); }" % (v, m, args))
        elif c < 60:
            L.append("try { print(%s.%s); } catch e { print(type(e)); print(e.context); }" % (v, r.choice(["nope", "zz", "count", "f0"])))
        elif c < 68:
            L.append("try { print(%s.%s()); } catch e { print(type(e)); print(e.context); }" % (v, r.choice(["nope", "f0", "count"])))
        elif c < 76:
            f = r.choice(["f0", "f1", "extra", "m0", "m1"])
            L.append("%s.%s = %s;" % (v, f, r.choice(["5", "\"set\"", "|q| [\"field fn\", q]", "|| \"field fn0\""])))
            L.append("try { print(%s.%s); } catch e { print(type(e)); }" % (v, f) if "|" not in L[-1] else
                     "try { print(%s.%s(1)); } catch e { print(type(e)); print(e.context); }" % (v, f))
        elif c < 84:
            L.append("print(type(%s));" % v)
            L.append("print(%s.derives(%s));" % (v, r.choice([info.name, "Object", "Error", (info.parent.name if info.parent else "Iter")])))
        elif c < 92 and info.statics:
            s = r.choice(sorted(info.statics))
            args = ", ".join(r.choice(["1", "\"q\""]) for _ in range(info.statics[s]))
            L.append("try { print(%s.%s(%s)); } catch e { print(type(e)); print(e.context); }" % (r.choice([info.name, v]), s, args))
        else:
            L.append("print(%s.%s += %s);" % (v, r.choice(["count", "f0"]), r.choice(["1", "\"s\""])) if False else
                     "try { %s.n = 1; %s.n += 2; %s.n *= 3; print(%s.n); } catch e { print(type(e)); }" % (v, v, v, v))
    return L


def s_field(g, depth):
    r = g.r
    vs = g.visible(lambda v: v.kind.startswith("inst:"))
    if not vs:
        if g.classes and not getattr(g, "try_ctx", [[]])[-1]:
            c = r.choice(g.classes)
            if c.fdepth == 0 or c.fdepth == g.fdepth:
                return use_class(g, c)
        return g.s_print(depth)
    v = r.choice(vs)
    info = find_class(g, v.kind.split(":", 1)[1])
    if info is None:
        return g.s_print(depth)
    return use_instance(g, v.name, info)


def inner_has_base(r):
    return False


def s_clsmisc(g, depth):
    """non-class superclass, inherited statics through the subclass, rebinding the superclass name,
    class declared in a function capturing locals"""
    r = g.r
    if getattr(g, "try_ctx", [[]])[-1]:
        return g.s_print(depth)
    c = r.below(8)
    n = g.fresh("Z")
    if c >= 6:
        # callables of every kind kept in instance fields and class-level variables, called with the fused
        # obj.field(args) syntax, through parentheses, and after being copied to a variable
        L = ["#[constructor(new)] class %sHolder { fn own(self, a) { return [\"own\", a]; } }" % n,
             "#[constructor(new)] class %sOther { fn meth(self, a) { return [\"other\", a]; } #[static] fn stat(a) { return [\"stat\", a]; } }" % n,
             "var %sh = %sHolder.new(); var %so = %sOther.new(); var %slog = [];" % (n, n, n, n, n)]
        kinds = [("%so.meth" % n, "1"), ("%so.derives" % n, "%sOther" % n), ("%so.derives" % n, "%sHolder" % n), ("%slog.push" % n, "\"p\""), ("%slog.len" % n, ""),
                 ("\"text\".len", ""), ("type", "2"), ("String.from", "3"), ("|a| [\"lam\", a]", "4"), ("%sOther.stat" % n, "5"), ("%sh.own" % n, "6"),
                 ("(1, 2).len", ""), ("{1: 2}.get", "1"), ("(0..3).iter().next", ""), ("5", "1"), ("nil", ""), ("%sOther" % n, "1")]
        for fi, (val, arg) in enumerate(r.sample(kinds, r.range(4, 8))):
            L.append("%sh.f%d = %s;" % (n, fi, val))
            L.append("try { print(%sh.f%d(%s)); } catch e { print(type(e)); print(e.context); }" % (n, fi, arg))
            if r.chance(50):
                L.append("try { print((%sh.f%d)(%s)); var cp = %sh.f%d; print(cp(%s)); } catch e { print(type(e)); print(e.context); }" % (n, fi, arg, n, fi, arg))
            if r.chance(30):
                L.append("try { print(%sh.f%d(%s, 9)); } catch e { print(type(e)); print(e.context); }" % (n, fi, arg if arg else "8"))
        L.append("print(%slog);" % n)
        return L
    if c >= 4:
        # a class declared inside a method of another class: in a static method, an instance method, a constructor or a
        # lambda inside a method; the inner class has its own self / Self / super, and may capture the outer method's
        # locals and (from an instance method) the outer self
        where = r.choice(["static", "static", "instance", "ctor", "lambda"])
        inner = ["        #[derive(%sInnerBase)]" % n if r.chance(40) else "",
                 "        class Inner {", "            #[constructor]", "            fn new(self, x) { self.x = x * scale; }",
                 "            fn sum(self) { return self.x + scale; }", "            fn adder(self) { return |k| self.sum() + k; }",
                 "            #[static]", "            fn origin() { return Self.new(0); }",
                 "            fn who(self) { return [\"inner\", %s]; }" % ("super.who()" if inner_has_base(r) else "scale"),
                 "        }"]
        has_base = inner[0] != ""
        inner[8] = "            fn who(self) { return [\"inner\", %s]; }" % ("super.who()" if has_base else "scale")
        inner = [l for l in inner if l]
        L = ["class %sInnerBase { fn who(self) { return \"base\"; } }" % n, "class %sOuter {" % n]
        if where == "static":
            L += ["    #[static]", "    fn make(scale) {"] + inner + ["        return Inner;", "    }", "    #[constructor]", "    fn new(self) { self.tag = \"outer\"; }"]
            get = "%sOuter.make(%d)" % (n, r.range(1, 5))
        elif where == "instance":
            L += ["    #[constructor]", "    fn new(self) { self.tag = \"outer\"; }", "    fn make(self, scale) {", "        var me = self;"] + inner + [
                "        return Inner;", "    }"]
            get = "%sOuter.new().make(%d)" % (n, r.range(1, 5))
        elif where == "ctor":
            L += ["    #[constructor]", "    fn new(self, scale) {"] + inner + ["        self.cls = Inner;", "        self.tag = \"outer\";", "    }"]
            get = "%sOuter.new(%d).cls" % (n, r.range(1, 5))
        else:
            L += ["    #[constructor]", "    fn new(self) { self.tag = \"outer\"; }", "    fn maker(self) {", "        return |scale| {"] + ["    " + l for l in inner] + [
                "            return Inner;", "        };", "    }"]
            get = "%sOuter.new().maker()(%d)" % (n, r.range(1, 5))
        L += ["    fn tagof(self) { return self.tag; }", "    #[static]", "    fn kind() { return \"outer kind\"; }", "}",
              "var %sI = %s;" % (n, get), "var %so = %sI.new(3);" % (n, n), "print(%so.sum());" % n, "print(%so.adder()(10));" % n,
              "print(%sI.origin().sum());" % n, "print(%so.who());" % n, "print(%sOuter.kind());" % n, "print(type(%so) == %sI);" % (n, n)]
        return L
    if c == 0:
        bad = g.fresh("notclass")
        return ["var %s = %s;" % (bad, r.choice(["1", "nil", "\"s\"", "|| 1"])),
                "try { #[derive(%s)] class %s {} print(\"declared\"); } catch e { print(type(e)); print(e.context); }" % (bad, n),
                "#[constructor(new)] class %sOk { fn m(self) { return \"still fine\"; } }" % n, "print(%sOk.new().m());" % n]
    if c == 1:
        return ["class %sBase { #[static] fn s() { return \"static of base\"; } fn im(self) { return \"im\"; } }" % n,
                "#[derive(%sBase), constructor(new)] class %sSub {}" % (n, n),
                "print(%sBase.s());" % n,
                "try { print(%sSub.s()); } catch e { print(type(e)); print(e.context); }" % n,
                "print(%sSub.new().s());" % n, "print(%sSub.new().im());" % n,
                "try { print(%sBase.im()); } catch e { print(type(e)); print(e.context); }" % n]
    if c == 2:
        return ["class %sA { fn who(self) { return \"A\"; } }" % n, "class %sB { fn who(self) { return \"B\"; } }" % n,
                "#[derive(%sA), constructor(new)] class %sC { fn who(self) { return [\"C\", super.who()]; } fn bound(self) { return super.who; } }" % (n, n),
                "var %so = %sC.new();" % (n, n), "print(%so.who());" % n, "%sA = %sB;" % (n, n), "print(%so.who());" % n,
                "print(%so.bound()());" % n, "print(%so.derives(%sB));" % (n, n)]
    return ["fn mk%s(tag) {" % n, "    var hidden = [tag];", "    #[constructor(new)]",
            "    class Local { fn get(self) { hidden.push(1); return hidden; } #[static] fn name() { return \"Local ${tag}\"; } }",
            "    return Local;", "}", "var %sL1 = mk%s(1); var %sL2 = mk%s(\"two\");" % (n, n, n, n),
            "print(%sL1.name()); print(%sL2.name());" % (n, n), "print(%sL1.new().get()); print(%sL1.new().get()); print(%sL2.new().get());" % (n, n, n),
            "print(%sL1 == %sL2); print(type(%sL1.new()) == %sL1);" % (n, n, n, n)]


def host_class_program(rng):
    """programs over a class hierarchy the embedding program declared through the host API (HAnimal <- HBird <- HParrot
    with native methods, instances hgeneric / htweety / hpolly): nearest-method dispatch, bound methods taken as values,
    script classes deriving from host classes with overrides and super calls, derives / type"""
    r = rng
    L = []
    insts = ["hgeneric", "htweety", "hpolly"]
    meths = ["speak", "legs", "kind"]
    for _ in range(r.range(3, 8)):
        i, m = r.choice(insts), r.choice(meths)
        k = r.below(5)
        if k == 0:
            L.append("print(%s.%s());" % (i, m))
        elif k == 1:
            L.append("{ var bm = %s.%s; print(bm()); print(bm() == %s.%s()); }" % (i, m, i, m))
        elif k == 2:
            L.append("print([type(%s), %s.derives(HAnimal), %s.derives(HBird), %s.derives(HParrot)]);" % (i, i, i, i))
        elif k == 3:
            L.append("try { print(%s.%s); } catch e { print(type(e)); print(e.context); }" % (i, r.choice(["nothing", "new", "fly"])))
        else:
            L.append("%s.note = \"%s\"; print([%s.note, %s.%s()]);" % (i, m, i, i, m))
    base = r.choice(["HAnimal", "HBird", "HParrot"])
    over = r.sample(meths, r.range(0, 2))
    L.append("#[derive(%s), constructor(new)]" % base)
    L.append("class Scripted {")
    for m in over:
        L.append("    fn %s(self) { return [\"scripted %s\", super.%s()]; }" % (m, m, m))
    L.append("    fn all(self) { return [self.speak(), self.legs(), self.kind()]; }")
    L.append("    fn sup(self) { return [super.speak(), super.legs(), super.kind()]; }")
    L.append("}")
    L += ["var sc = Scripted.new();", "print(sc.all());", "print(sc.sup());", "print([sc.derives(%s), sc.derives(HAnimal), type(sc)]);" % base,
          "#[derive(Scripted), constructor(new)] class Deeper { fn speak(self) { return \"deeper\"; } }", "print(Deeper.new().all());", "print(Deeper.new().sup());"]
    return "\n".join(L) + "\n"


def object_override_program(rng):
    """classes that override what every class inherits from Object (derives), three levels deep, called and bound through
    instances of each level; super calls in methods whose name is also a field of the receiver"""
    r = rng
    L = ["#[constructor(new)]", "class Base {", "    fn derives(self, c) { return [\"base says\", c == Base]; }", "    fn label(self) { return \"base\"; }", "}",
         "#[derive(Base), constructor(new)]", "class Mid {", "    fn label(self) { return [\"mid\", super.label()]; }",
         "    fn viasuper(self, c) { return super.derives(c); }", "}",
         "#[derive(Mid), constructor(new)]", "class Leaf { fn other(self) { return super.label(); } }",
         "#[derive(Leaf), constructor(new)]", "class Redeclared { fn derives(self, c) { return \"redeclared\"; } }"]
    for cls in r.sample(["Base", "Mid", "Leaf", "Redeclared"], 3):
        v = cls.lower()
        L += ["var %s = %s.new();" % (v, cls), "print(%s.derives(Base));" % v, "{ var d = %s.derives; print(d(Mid)); }" % v,
              "try { print(%s.viasuper(Base)); } catch e { print(type(e)); }" % v, "print(%s.label());" % v]
        if r.chance(60):
            field = r.choice(["\"a field\"", "|| \"field fn\"", "5", "%s.label" % v])
            L += ["var bound_%s = %s.label;" % (v, v), "%s.label = %s;" % (v, field),
                  "try { print(bound_%s()); } catch e { print(type(e)); print(e.context); }" % v,
                  "try { print(%s.other()); } catch e { print(type(e)); print(e.context); }" % v,
                  "try { print(%s.label()); } catch e { print(type(e)); print(e.context); }" % v]
    return "\n".join(L) + "\n"


def nested_receiver_program(rng):
    """`self`, `super.m(..)`, the value `super.m` and `Self` used inside lambdas and functions nested one to three
    levels deep in methods, constructors and static methods; every method reached through `super` reports its own
    receiver, so a nested use that sees anything but the method's receiver prints differently"""
    r = rng
    depth = r.range(1, 3)
    kinds = [r.choice(["lambda", "fn"]) for _ in range(depth)]

    def nest(expr, extra=""):
        # returns statements that build the nested closure chain and return the innermost result
        body = "return %s;" % expr
        for i, k in enumerate(reversed(kinds)):
            lvl = depth - i
            if k == "lambda":
                body = "var c%d = || { %s }; %s return c%d();" % (lvl, body, extra if i == depth - 1 else "", lvl)
            else:
                body = "fn c%d() { %s } %s return c%d();" % (lvl, body, extra if i == depth - 1 else "", lvl)
        return body

    tag = r.range(1, 99)
    L = ["#[constructor(new)]", "class NBase {",
         "    fn who(self) { return [\"base who\", self.tag, type(self)]; }",
         "    fn me(self) { return self; }",
         "    fn add(self, a, b) { return [self.tag, [a, b]]; }",
         "    #[static] fn make() { return \"base make\"; }", "}",
         "#[derive(NBase)]", "class NMid {",
         "    #[constructor] fn new(self) { self.tag = %d; }" % tag,
         "    fn who(self) { return [\"mid who\", super.who()]; }", "}",
         "#[derive(NMid)]", "class NLeaf {",
         "    #[constructor] fn new(self, t) { super.new(); self.tag = t; self.early = (|| self.tag)(); }",
         "    fn who(self) { return [\"leaf who\"]; }",
         "    fn a(self) { %s }" % nest("super.who()"),
         "    fn b(self) { %s }" % nest("super.me() == self"),
         "    fn c(self, x) { %s }" % nest("super.add(x, self.tag)"),
         "    fn d(self) { %s }" % nest("super.me", ),
         "    fn e(self) { %s }" % nest("[self.tag, self.who(), self == super.me()]"),
         "    fn f(self) { var keep = []; %s }" % nest("keep", extra="keep.push(|| super.who()); keep.push(|| self);"),
         "    #[static] fn make() { return \"leaf make\"; }",
         "    #[static] fn s() { %s }" % nest("[Self, Self.make()]"),
         "}",
         "var o = NLeaf.new(\"t%d\"); var p = NLeaf.new(%d);" % (tag, tag + 1)]
    calls = ["print(o.a());", "print(o.b());", "print(o.c(%d));" % r.range(0, 9), "var bm = o.d(); print(bm() == o); print(bm() == p);",
             "print(o.e());", "var k = p.f(); print(k[0]()); print(k[1]() == p); print(k[1]() == o);", "print(NLeaf.s());",
             "print(o.early); print(p.a());", "var ma = o.a; print(ma());"]
    r.shuffle(calls) if hasattr(r, "shuffle") else None
    L += calls
    if r.chance(8):
        L += ["class NStat { #[static] fn s() { var f = || self; return f(); } }", "print(NStat.s());"]
    return "\n".join(L) + "\n"


def ctor_paths_program(rng):
    """explicit constructors left along every path - falling off the end, a bare `return;` at the top, inside an if, a loop,
    a block, a try block that has a finally (alone, nested, after a complete inner try statement), after `super.new(..)` -
    chosen by the arguments: whichever way it is left, the call evaluates to the new instance"""
    r = rng
    paths = []

    def path(i):
        k = r.below(9)
        if k == 0:
            return "if p == %d { return; }" % i
        if k == 1:
            return "if p == %d { self.log.push(\"ret%d\"); { var tmp = %d; if tmp == %d { return; } } }" % (i, i, i, i)
        if k == 2:
            return "for q in 0..3 { if p == %d && q == 1 { self.log.push(\"loop%d\"); return; } }" % (i, i)
        if k == 3:
            return "try { if p == %d { self.log.push(\"try%d\"); return; } } finally { self.log.push(\"fin%d\"); }" % (i, i, i)
        if k == 4:
            return "try { try { if p == %d { return; } } finally { self.log.push(\"inner%d\"); } } finally { self.log.push(\"outer%d\"); }" % (i, i, i) if False else \
                   "try { self.log.push(\"a%d\"); if p == %d { var w = [p]; return; } self.log.push(\"b%d\"); } finally { self.log.push(\"fin%d\"); }" % (i, i, i, i)
        if k == 5:
            return "try { try { [][p]; } catch e { self.log.push(\"c%d\"); } if p == %d { return; } } finally { self.log.push(\"fin%d\"); }" % (i, i, i)
        if k == 6:
            return "var w%d = 0; while w%d < 2 { w%d += 1; if p == %d { return; } }" % (i, i, i, i)
        if k == 7:
            return "try { if p == %d { throw \"t%d\"; } } catch e { self.log.push(e); } finally { self.log.push(\"fin%d\"); }" % (i, i, i)
        return "if p == %d { self.log.push(|| self); return; }" % i

    n = r.range(3, 6)
    L = ["class CP {", "    #[constructor]", "    fn new(self, p) {", "        self.p = p; self.log = [];"]
    for i in range(n):
        L.append("        " + path(i))
    L += ["        self.log.push(\"end\");", "    }", "    fn show(self) { return [self.p, self.log.len()]; }", "}",
          "#[derive(CP)]", "class CD {", "    #[constructor]", "    fn make(self, p) {", "        %s" % r.choice(["super.new(p);", "try { super.new(p); } finally { self.post = true; }", "super.new(p); if p == 1 { return; }"]),
          "        " + path(n), "        self.derived = true;", "    }", "}"]
    for i in range(n + 2):
        L.append("{ var o = CP.new(%d); print(type(o)); try { print(o.show()); print(o.log.len()); } catch e { print(type(e)); print(e.context); } }" % i)
        L.append("{ var d = CD.make(%d); print(type(d)); try { print(d.show()); print(d.derives(CP)); } catch e { print(type(e)); print(e.context); } }" % i)
    L.append("var via = CP.new; try { print(type(via(0))); } catch e { print(type(e)); print(e.context); }")
    # statics and constructors taken off the class as values: they stay bound to the class they were taken from
    L += ["class SV { #[constructor] fn new(self, a) { self.a = a; } #[static] fn mk(a) { return Self.new(a); } #[static] fn me() { return Self; }",
          "    #[static] fn twice(a) { return [Self.mk(a).a, Self.me() == SV]; } fn inst(self) { return self.a; } }",
          "#[derive(SV)] class SW { #[constructor] fn new(self, a) { super.new(a); self.w = true; } #[static] fn mk(a) { return Self.new([a]); } #[static] fn me() { return Self; } }",
          "#[constructor(new)] class Hold {}", "var h = Hold.new();"]
    uses = ["var f1 = SV.mk; print(type(f1(1))); print(f1(2).a);", "var f2 = SW.mk; print(type(f2(1))); print(f2(2).a);",
            "print([1, 2].iter().map(SV.mk).collect().len()); print([3].iter().map(SW.mk).collect()[0].a);",
            "h.go = SV.me; print(h.go() == SV); h.go2 = SW.me; print(h.go2() == SW);", "var c1 = SV.new; var made = c1(7); print(type(made)); print(made.inst());",
            "var c2 = SW.new; var made2 = c2(8); print(type(made2)); print(made2.w);", "var t = SV.twice; print(t(5));", "print((SV.me)() == SV); print((SW.mk)(0).a);",
            "fn apply(f, x) { return f(x); } print(type(apply(SV.mk, 1))); print(type(apply(SW.new, 2)));"]
    for u in r.sample(uses, r.range(3, len(uses))):
        L.append("try { %s } catch e { print(type(e)); print(e.context); }" % u)
    return "\n".join(L) + "\n"
