"""hostile workloads for C02: every built-in method name x every receiver of an adversarial value
pool x argument tuples of arity 0-3, every operator on ill-typed operand pairs, deep recursion with
narrow and wide frames, self-referential data printed / compared / interpolated, misuse of fibers and
iterators. All loops bounded; structure depth <= 64."""
import os
import re

from .. import common

POOL_PRELUDE = '''
#[constructor(new)]
class UserK { fn m(self, a) { return a; } #[static] fn s() { return 1; } }
#[derive(String), constructor(new)] class DString {}
#[derive(Vec), constructor(new)] class DVec {}
#[derive(HashMap), constructor(new)] class DMap {}
#[derive(Fiber), constructor(make)] class DFiber {}
#[derive(Iter), constructor(new)] class DIter {}
#[derive(Error)] class UErr { #[constructor] fn new(self, m) { super.new(m); } }
var selfvec = [1]; selfvec.push(selfvec);
var selfmap = {}; selfmap.insert(1, selfmap);
var badtuple = (1, [2]); var badtuple2 = ((1, 2), ({}, 3));
var selftuple_inner = [2]; var selftuple = (1, selftuple_inner); selftuple_inner.push(selftuple);
var f0 = || 1; var f1 = |a| a; var f2 = |a, b| [a, b];
var fiber_new = Fiber.new(|| { Fiber.yield(1); return 2; });
var fiber_susp = Fiber.new(|a| { var x = Fiber.yield(a); return x; }); fiber_susp.call(1);
var fiber_done = Fiber.new(|| 3); fiber_done.call();
var it_fresh = [1, 2].iter(); var it_done = [].iter(); it_done.next();
var sit = "ab".iter(); var rit = (0..2).iter(); var tit = (1, 2).iter();
var mapit = [1, 2].iter().map(|v| v); var filtit = [1, 2].iter().filter(|v| true);
var stop = StopIter.new(); var err_inst = UErr.new("ctx"); var caught = nil; try { nil + 1; } catch e { caught = e; }
var inst = UserK.new(); inst.field = 5;
var longstr = "0123456789"; for i in 0..5 { longstr = longstr + longstr; }
var leadbytes = "ÀĀŀƀǀȀɀʀˀ̀̀΀πЀрҀӀԀՀր׀؀ـڀۀ܀݀ހ߀ࠀ᠀⠀㠀䠀堀栀砀蠀頀ꠀ렀저𐀀񐀀򐀀󐀀􏿿";
var cyr = "Привет, мир";
var deep = []; for i in 0..60 { deep = [deep]; }
var bigvec = []; for i in 0..300 { bigvec.push(i); }
import "hostmod" as hostmod;
'''
MODS = [("hostmod", "var v = 1;\nfn f(a) { return a; }\n")]

POOL = ["nil", "true", "false", "0", "-0", "1", "-1", "0.5", "255", "256", "2147483648", "9007199254740993", "9223372036854775808",
        "-9223372036854775808", "(1 / 0)", "(-1 / 0)", "(0 / 0)", "1" + "0" * 308, "\"\"", "\"a\"", "\"é\"", "\"€😀x\"", "longstr", "leadbytes", "cyr", "\"שלום\"", "[]", "[1]",
        "[1, [2, [3]]]", "selfvec", "()", "(1,)", "(1, (2, 3))", "selftuple", "badtuple", "badtuple2", "{}", "{1: 2}", "selfmap", "0..0", "0..3", "3..0", "-2..2",
        "0..9223372036854775807", "f0", "f1", "f2", "print", "type", "\"a\".len", "[1].push", "inst.m", "String", "Vec", "UserK", "Fiber", "Type",
        "inst", "DString.new()", "DVec.new()", "DMap.new()", "DFiber.make()", "DIter.new()", "hostmod", "fiber_new", "fiber_susp", "fiber_done",
        "it_fresh", "it_done", "sit", "rit", "tit", "mapit", "filtit", "stop", "err_inst", "caught", "deep", "bigvec", "UErr"]
POOL_EXPRS = POOL
POOL = ["pv%d" % i for i in range(len(POOL_EXPRS))]
POOL_PRELUDE = POOL_PRELUDE + "".join("var pv%d = %s;\n" % (i, e) for i, e in enumerate(POOL_EXPRS))
HUGE = "pv%d" % POOL_EXPRS.index("0..9223372036854775807")
ARGS = [p for p in POOL if p != HUGE]
NO_COLLECT = {HUGE}


def method_names():
    """every native / core method name, read from the sources so that a newly added one is covered"""
    root = os.path.join(common.REPO, "yarel", "src")
    names = set(re.findall(r'\("(\w+)",\s*\w+\s+as\s+NativeFn\)', open(os.path.join(root, "core.rs")).read()))
    names |= set(re.findall(r'vm\.new_gc_obj_string\("(\w+)"\)', open(os.path.join(root, "core.rs")).read()))
    names |= set(re.findall(r"\bfn (\w+)\(", open(os.path.join(root, "core.yl")).read()))
    names -= {"StringIter", "Tuple", "TupleIter", "Vec", "VecIter", "Range", "RangeIter", "HashMap", "Module", "FiberClass", "Fiber", "String"}
    return sorted(names | {"nope"})


def call_line(recv, meth, args, ctx=True):
    # the context names the failure (wrong arity vs. wrong receiver vs. wrong argument type)
    return "try { print(type(%s.%s(%s))); } catch e { print(type(e)); %s}" % (recv, meth, ", ".join(args),
                                                                            "print(e.context); " if ctx else "")


def sweep_programs(rng, quick):
    names = method_names()
    calls = []
    for recv in POOL:
        for meth in names:
            if recv in NO_COLLECT and meth in ("collect", "reduce", "map", "filter"):
                continue
            calls.append(call_line(recv, meth, []))
            n1 = 2 if quick else len(ARGS)
            for a in (rng.sample(ARGS, n1) if quick else ARGS):
                calls.append(call_line(recv, meth, [a]))
            for _ in range(1 if quick else 6):
                calls.append(call_line(recv, meth, [rng.choice(ARGS), rng.choice(ARGS)]))
            calls.append(call_line(recv, meth, [rng.choice(ARGS), rng.choice(ARGS), rng.choice(ARGS)]))
            if rng.chance(15):
                calls.append("try { var bm = %s.%s; print(type(bm)); print(type(bm(%s))); } catch e { print(type(e)); }" % (recv, meth, rng.choice(ARGS)))
    calls = rng.shuffle(calls)
    per = 250
    progs = []
    for i in range(0, len(calls), per):
        progs.append(("sweep/%d" % (i // per), POOL_PRELUDE + "\n".join(calls[i:i + per]) + "\n", MODS))
    return progs, len(calls), names


BINOPS = ["+", "-", "*", "/", "%", "&", "|", "^", "<<", ">>", "<", ">", "<=", ">=", "==", "!=", "&&", "||", ".."]


def operator_programs(rng, quick):
    lines = []
    pool = ARGS
    for a in pool:
        for op in ["-", "!", "~"]:
            lines.append("try { print(type(%s%s)); } catch e { print(type(e)); }" % (op, a))
        lines.append("try { print(type(%s())); } catch e { print(type(e)); }" % a)
        lines.append("try { print(type(%s(1, 2))); } catch e { print(type(e)); }" % a)
        lines.append("try { print(type(%s.zz)); } catch e { print(type(e)); }" % a)
        lines.append("try { %s.zz = 1; print(\"set\"); } catch e { print(type(e)); }" % a)
        lines.append("try { for x in %s { break; } print(\"looped\"); } catch e { print(type(e)); }" % a)
        lines.append("try { print(\"${%s}\".len() >= 0); } catch e { print(type(e)); }" % a)
        lines.append("try { print(String.from(%s).len() >= 0); } catch e { print(type(e)); }" % a)
        lines.append("try { throw %s; } catch e { print(type(e)); }" % a)
        lines.append("try { var m = {%s: 1}; print(m.len()); } catch e { print(type(e)); }" % a)
        # the same object offered as a key repeatedly, through every keyed operation
        lines.append("{ var km = {}; " + " ".join("try { print(type(km.%s)); } catch e { print(type(e)); }" % op for op in [
            "insert(%s, 1)" % a, "insert(%s, 2)" % a, "has_key(%s)" % a, "get(%s)" % a, "remove(%s)" % a, "insert((0, %s), 3)" % a,
            "has_key((0, %s))" % a]) + " try { print(type({%s: 1, %s: 2})); } catch e { print(type(e)); } print(km.len()); }" % (a, a))
        lines.append("try { #[derive(%s)] class Sub {} print(\"declared\"); } catch e { print(type(e)); }" % a)
        # the same object in two roles of one operation (container and index, receiver and argument, both operands):
        # formatting, comparing or hashing the one while the other is borrowed or being changed
        for self_role in ["%s[%s]", "%s[%s] = 1", "%s[(%s, 1)] = 1", "%s[[%s]] = 1", "%s[{1: %s}] = 1", "%s.find(%s, 0)", "%s.replace(%s, \"r\")",
                          "%s.split(%s)", "%s.starts_with(%s)", "%s.has_key(%s)", "%s.get(%s)", "%s.remove(%s)", "%s.insert(%s, 1)", "%s.insert((1, %s), 1)", "%s.insert([%s], 1)", "%s.remove((%s,))", "%s.has_key([%s])", "%s.derives(%s)", "%s.call(%s)",
                          "%s(%s)", "%s == %s", "%s < %s", "%s + %s", "%s..%s", "%s.iter().map(%s).collect()", "%s.iter().reduce(%s, 0)"]:
            if "=" in self_role and " = 1" in self_role:
                lines.append("try { %s; print(\"stored\"); } catch e { print(type(e)); print(e.context); }" % (self_role % (a, a)))
            else:
                lines.append("try { print(type(%s)); } catch e { print(type(e)); print(e.context); }" % (self_role % (a, a)))
        lines.append("try { var n = 0; for x in %s { n = n + 1; if n > 60 { break; } } print(n); } catch e { print(type(e)); }" % a)
        others = pool if not quick else rng.sample(pool, 6)
        for b in others:
            op = rng.choice(BINOPS)
            lines.append("try { print(type(%s %s %s)); } catch e { print(type(e)); }" % (a, op, b))
            if rng.chance(30):
                lines.append("try { print(type(%s[%s])); } catch e { print(type(e)); }" % (a, b))
            if rng.chance(15):
                lines.append("try { var t = %s; t[%s] = %s; print(\"assigned\"); } catch e { print(type(e)); }" % (a, b, rng.choice(pool)))
            if rng.chance(10):
                lines.append("try { var t = %s; t %s= %s; print(type(t)); } catch e { print(type(e)); }" % (a, rng.choice(["+", "-", "*", "<<", "%"]), b))
    lines = rng.shuffle(lines)
    per = 250
    return [("ops/%d" % (i // per), POOL_PRELUDE + "\n".join(lines[i:i + per]) + "\n", MODS) for i in range(0, len(lines), per)]


def stress_programs():
    """recursion to and beyond the frame limit with narrow and wide frames, self-referential data, fiber and iterator misuse"""
    out = []
    out.append(("recursion/narrow", "fn r(n) { return r(n + 1) + 1; }\ntry { print(r(0)); } catch e { print(type(e)); print(e.context); }\nprint(\"alive\");\n"))
    for width in (10, 100, 200, 250):
        decls = " ".join("var l%d = n;" % i for i in range(width))
        out.append(("recursion/wide%d" % width, "fn r(n) { %s return r(n + 1) + l0; }\ntry { print(r(0)); } catch e { print(type(e)); print(e.context); }\nprint(\"alive\");\n" % decls))
    out.append(("recursion/mutual", "fn a(n) { return b(n + 1); }\nfn b(n) { return a(n + 1); }\ntry { a(0); } catch e { print(type(e)); }\n"
                                    "#[constructor(new)] class R { fn m(self, n) { return self.m(n + 1); } }\ntry { R.new().m(0); } catch e { print(type(e)); }\nprint(\"alive\");\n"))
    out.append(("recursion/in-fiber", "fn r(n) { return r(n + 1); }\nvar f = Fiber.new(|| { try { r(0); } catch e { return type(e); } });\nprint(f.call());\n"
                                      "var g = Fiber.new(|| { return Fiber.new(|| { try { r(0); } catch e { return type(e); } }).call(); });\nprint(g.call());\n"))
    out.append(("recursion/uncaught", "fn r(n) { return r(n + 1); }\nr(0);\n"))
    out.append(("selfref/print", "var v = [1]; v.push(v); print(v); print(\"${v}\"); print(String.from(v)); print(v == v);\n"
                                 "var m = {}; m.insert(1, m); print(m); print(m == m);\nvar inner = [0]; var t = (inner, 1); inner.push(t); print(t); print(t == t);\n"
                                 "try { var k = {t: 1}; print(k.len()); } catch e { print(type(e)); }\nprint([v, v, [v]]);\n"))
    out.append(("fiber/misuse", "var f = Fiber.new(|| { f.call(); });\ntry { f.call(); } catch e { print(e.context); }\n"
                                "var a = nil; var b = nil;\na = Fiber.new(|| { return b.call(); });\nb = Fiber.new(|| { return a.call(); });\n"
                                "try { print(a.call()); } catch e { print(e.context); }\n"
                                "var y = Fiber.new(|| { Fiber.yield(1, 2); });\ntry { y.call(); } catch e { print(type(e)); }\n"
                                "try { Fiber.yield(); } catch e { print(e.context); }\ntry { Fiber.new(|| 1).call(1); } catch e { print(e.context); }\n"
                                "var d = Fiber.new(|| 1); d.call(); try { d.call(); } catch e { print(e.context); }\nprint(\"alive\");\n"))
    out.append(("iter/misuse", "var it = [1].iter(); it.next(); print(it.next().derives(StopIter)); print(it.next().derives(StopIter));\n"
                               "try { for x in 5 { } } catch e { print(type(e)); }\n#[constructor(new)] class NoNext { fn iter(self) { return self; } }\n"
                               "try { for x in NoNext.new() { } } catch e { print(type(e)); }\n"
                               "#[constructor(new)] class BadNext { fn iter(self) { return self; } fn next(self, extra) { return 1; } }\n"
                               "try { for x in BadNext.new() { } } catch e { print(type(e)); }\n"
                               "try { [1].iter().map(5).collect(); } catch e { print(type(e)); }\ntry { [1].iter().reduce(|a| a, 0); } catch e { print(type(e)); }\nprint(\"alive\");\n"))
    for n in (1000, 5000):
        out.append(("deep/nesting%d" % n, "var d = []; for i in 0..%d { d = [d]; }\nprint(\"built\");\n" % n))
    out.append(("long/strings", "var s = \"ab\"; for i in 0..16 { s = s + s; }\nprint(s.len());\nprint(s.split(\"a\").len());\nprint(s.replace(\"a\", \"xyz\").len());\nprint(s.find(\"ba\", 100000));\n"))
    out.append(("long/vecs", "var v = []; for i in 0..50000 { v.push(i); }\nprint(v.len());\nprint(v[49999]);\nprint(v[1..3]);\nvar m = {}; for i in 0..20000 { m.insert(i, i); }\nprint(m.len());\n"))
    out.append(("import/odd", "try { import \"\"; } catch e { print(type(e)); }\ntry { import \"..\"; } catch e { print(type(e)); }\n"
                              "try { import \"a/b/../c\" as q; } catch e { print(type(e)); }\ntry { import \"hostmod\" as h; print(h.f(1)); } catch e { print(type(e)); }\n"))
    return [(n, s, MODS) for n, s in out]


EXTREME_NUMS = ["0", "-0", "1", "-1", "2", "0.5", "-0.5", "3", "255", "256", "65536", "2147483647", "2147483648", "-2147483648", "4294967296",
                "9007199254740991", "9007199254740992", "9007199254740993", "-9007199254740992", "9223372036854775807", "9223372036854775808",
                "-9223372036854775808", "-9223372036854775809", "18446744073709551616", "(1 / 0)", "(-1 / 0)", "(0 / 0)",
                "0.000000000000000000000000000001", "179769313486231570000000000000000000000000000000000000000000000000000000000000000000000000000000000000000000000000000000000000000000000000000000000000000000000000000000000000000000000000000000000000000000000000000000000000000000000000000000000000000000000000000000000000000000000000000000000000000000000000000"]
ARITH_OPS = ["+", "-", "*", "/", "%", "&", "|", "^", "<<", ">>", "<", "<=", "==", ".."]


def extreme_arith_programs(rng, quick):
    """every arithmetic / bitwise / shift / comparison / range operator on every pair of extreme numbers (the neighbours of
    2^31, 2^32, 2^53, 2^63 and 2^64, signed zeros, infinities, NaN, the largest and a tiny double), unary operators,
    and the same values as index, repeat count and range bound"""
    lines = []
    for a in EXTREME_NUMS:
        for op in ["-", "~", "!"]:
            lines.append("try { print(%s%s); } catch e { print(type(e)); print(e.context); }" % (op, a))
        for b in EXTREME_NUMS:
            ops = ARITH_OPS if not quick else rng.sample(ARITH_OPS, 5)
            for op in ops:
                lines.append("try { print(%s %s %s); } catch e { print(type(e)); print(e.context); }" % (a, op, b))
        lines.append("try { print([1, 2, 3][%s]); } catch e { print(type(e)); print(e.context); }" % a)
        lines.append("try { print(\"abc\"[%s]); } catch e { print(type(e)); print(e.context); }" % a)
        lines.append("try { print(\"abc\".find(\"b\", %s)); } catch e { print(type(e)); print(e.context); }" % a)
        lines.append("try { print(String.from_code_points([%s])); } catch e { print(type(e)); print(e.context); }" % a)
        lines.append("try { var n = 0; for q in %s..(%s + 3) { n = n + 1; if n > 5 { break; } } print(n); } catch e { print(type(e)); print(e.context); }" % (a, a))
    lines = rng.shuffle(lines)
    per = 300
    return [("extreme/%d" % (i // per), "\n".join(lines[i:i + per]) + "\n", []) for i in range(0, len(lines), per)]


def statement_call_programs(rng, quick):
    """built-in calls written as bare statements at script level, in a block and as the first statement of a fiber body
    (nothing else on the operand stack below the call), with every wrong argument count"""
    names = method_names()
    lines = []
    recvs = [p for p in POOL if p not in NO_COLLECT]
    for meth in names:
        # one receiver of every kind that has native methods, plus a few others: a native's own argument checks only run
        # once its receiver is of the right kind
        reps = [POOL[POOL_EXPRS.index(e)] for e in ("[1]", "{1: 2}", "\"a\"", "(1,)", "0..3", "fiber_new", "fiber_done", "it_fresh", "sit", "rit", "tit",
                                                     "mapit", "inst", "String", "Fiber", "err_inst") if e in POOL_EXPRS]
        for recv in (recvs if not quick else reps + rng.sample(recvs, 3)):
            for args in ([], [rng.choice(ARGS)], [rng.choice(ARGS), rng.choice(ARGS)], [rng.choice(ARGS)] * 3):
                if meth in ("collect", "reduce", "map", "filter") and recv in NO_COLLECT:
                    continue
                lines.append("try { %s.%s(%s); print(\"ran\"); } catch e { print(type(e)); print(e.context); }" % (recv, meth, ", ".join(args)))
    lines = rng.shuffle(lines)[:6000 if quick else None]
    per = 250
    out = []
    for i in range(0, len(lines), per):
        chunk = lines[i:i + per]
        out.append(("stmtcall/%d" % (i // per), POOL_PRELUDE + "\n".join(chunk) + "\n"
                    + "var fbs = Fiber.new(|| { %s return 1; });\nprint(fbs.call());\n" % " ".join(chunk[:20]), MODS))
    return out
