"""Loop programs with a bounded live set that allocate every kind of object (C16)."""

PRELUDE = '''
class P {
    #[constructor]
    fn new(self, a) { self.a = a; self.b = nil; }
    fn get(self) { return self.a; }
    #[static] fn make(a) { return Self.new(a); }
}
#[derive(P), constructor(make0)]
class Q { fn twice(self) { return [self.a, self.a]; } }
var keep = [];
for i in 0..KEEP { keep.push(nil); }
var total = 0;
'''

BODIES = {
    "vec": "var o = [i, [i + 1], (i, i)]; keep[i % KEEP] = o; total += o.len();",
    "tuple": "var o = (i, (i, [i])); keep[i % KEEP] = o; total += o.len();",
    "map": "var o = {i: [i], \"k\": (i,)}; keep[i % KEEP] = o; total += o.len();",
    "map_tuple_keys": "var o = {}; o.insert((i, i % 3), i); o.insert((i + 1, \"s\"), [i]); o.remove((i, i % 3)); keep[i % KEEP] = o; total += o.len();",
    "string": "var o = \"s${i % 7}\" + \"t${i % 5}\"; keep[i % KEEP] = [o]; total += o.len();",
    "instance": "var o = P.new([i]); o.b = o; keep[i % KEEP] = o; total += o.get()[0] % 2;",
    "static_ctor": "var o = P.make(i); var q = Q.make0(); q.a = o; keep[i % KEEP] = q.twice(); total += 1;",
    "closure": "var c = i; var f = || c + 1; keep[i % KEEP] = f; total += f() % 2;",
    "closure_shared": "var c = [i]; var f = || c; var g = |x| { c = x; return c; }; g([i, i]); keep[i % KEEP] = f; total += f().len();",
    "bound": "var o = P.new(i); var m = o.get; keep[i % KEEP] = m; total += m() % 2;",
    "bound_native": "var m = [i, i].len; keep[i % KEEP] = m; total += m();",
    "range": "var r = (i + 100)..(i + 103); keep[i % KEEP] = r; for x in r { total += 1; }",
    "fiber_done": "var fb = Fiber.new(|| { return [i]; }); keep[i % KEEP] = fb.call(); total += 1;",
    "fiber_suspended": "var fb = Fiber.new(|a| { var l = [a, i]; Fiber.yield(l); return l; }); fb.call(i); keep[i % KEEP] = fb; total += 1;",
    "fiber_abandoned_capture": "var fb = Fiber.new(|| { var t = [i]; Fiber.yield(|| t); return 0; }); keep[i % KEEP] = fb.call(); total += 1;",
    "fiber_nested": "var fb = Fiber.new(|| { return Fiber.new(|| { return [i, 1]; }).call(); }); keep[i % KEEP] = fb.call(); total += 1;",
    "fiber_worker_chain": "var stage = Fiber.new(|| { var prev = keep[(i + KEEP - 1) % KEEP]; var w = Fiber.new(|| { return [i]; }); w.call(); keep[i % KEEP] = w; return prev; }); stage.call(); total += 1;",
    "fiber_worker_yielding": "var stage = Fiber.new(|| { var prev = keep[(i + KEEP - 1) % KEEP]; var w = Fiber.new(|| { Fiber.yield(1); return [i]; }); w.call(); w.call(); keep[i % KEEP] = [w, type(prev)]; return 0; }); stage.call(); total += 1;",
    "fiber_finished_kept": "var w = Fiber.new(|a| { return [a, keep[(i + 1) % KEEP] == nil]; }); w.call(i); keep[i % KEEP] = w; total += 1;",
    "fiber_finished_kept_chain": "var prev = keep[(i + KEEP - 1) % KEEP]; var w = Fiber.new(|p| { var local = [p, i]; return 1; }); w.call(prev); keep[i % KEEP] = w; total += 1;",
    "fiber_finished_kept_chain_nested": "var prev = keep[(i + KEEP - 1) % KEEP]; var w = Fiber.new(|p| { fn inner(q) { var t = (q, i); return 2; } var u = [p]; return inner(u); }); w.call(prev); keep[i % KEEP] = w; total += 1;",
    "fiber_finished_after_yield_chain": "var prev = keep[(i + KEEP - 1) % KEEP]; var w = Fiber.new(|p| { var a = [p]; var got = Fiber.yield(1); var b = [got, a]; return 3; }); w.call(prev); w.call(prev); keep[i % KEEP] = w; total += 1;",
    "fiber_closure_after_yield": "var fb = Fiber.new(|p| { var cell = [p, i]; var get = || cell; Fiber.yield(get); cell = [i]; return get; }); var g1 = fb.call(i); var g2 = fb.call(); keep[i % KEEP] = [g1, g2]; total += g2().len();",
    "fiber_method_closure": "var fb = Fiber.new(|| { var o = P.new([i]); var acc = 0; var add = |v| { acc = acc + v; return acc + o.get()[0]; }; add(1); return add; }); keep[i % KEEP] = fb.call(); total += 1;",
    "fiber_calls_kept_suspended": "var prev = keep[(i + KEEP - 1) % KEEP]; var fb = Fiber.new(|a| { var x = [a]; while true { x = [Fiber.yield(x)]; } }); fb.call(i); if type(prev) == Fiber { if !prev.has_finished() { prev.call(i); } } keep[i % KEEP] = fb; total += 1;",
    "fiber_stage_closure": "var prev = keep[(i + KEEP - 1) % KEEP]; var fb = Fiber.new(|p| { var state = [0]; return |v| { state[0] = state[0] + v; return state[0]; }; }); var acc = fb.call(prev); acc(i); keep[i % KEEP] = acc; total += 1;",
    "fiber_stage_param_closure": "var prev = keep[(i + KEEP - 1) % KEEP]; var fb = Fiber.new(|p| { var mine = [i]; var pad = p; Fiber.yield(|| mine); return 0; }); var g = fb.call(prev); fb.call(); keep[i % KEEP] = g; total += g().len();",
    "fiber_stage_block_closure": "var prev = keep[(i + KEEP - 1) % KEEP]; var fb = Fiber.new(|p| { var out = nil; { var inner = [i, 1]; out = || inner; } var hold = p; return out; }); keep[i % KEEP] = fb.call(prev); total += 1;",
    "closure_sibling_capture": "var prev = keep[(i + KEEP - 1) % KEEP]; fn mk(p) { var a = p; var ga = || a; var b = [i]; return || b; } keep[i % KEEP] = mk(prev); total += 1;",
    "closure_sibling_capture_block": "var prev = keep[(i + KEEP - 1) % KEEP]; var out = nil; { var a = prev; var ga = || a; var b = [i]; out = || b; } keep[i % KEEP] = out; total += 1;",
    "closure_sibling_capture_param": "var prev = keep[(i + KEEP - 1) % KEEP]; var mk = |p| { var user = || p; var own = (i,); return || own; }; keep[i % KEEP] = mk(prev); total += 1;",
    "fiber_finally_return_chain": "var fb = Fiber.new(|| { fn r() { try { return [keep[(i + KEEP - 1) % KEEP], i]; } finally { total += 1; } } r(); Fiber.yield(0); return 0; }); fb.call(); keep[i % KEEP] = fb;",
    "fiber_finally_return_done": "var fb = Fiber.new(|| { fn r() { try { return [keep[(i + KEEP - 1) % KEEP], i]; } finally { total += 1; } } r(); return 0; }); fb.call(); keep[i % KEEP] = fb;",
    "main_finally_return_big": "fn r() { try { var big = []; for q in 0..40 { big.push([q, i]); } return big; } finally { total += 1; } } r(); keep[i % KEEP] = i;",
    "iter_chain": "var o = [i, i + 1, i + 2].iter().map(|v| v * 2).filter(|v| v % 4 == 0).collect(); keep[i % KEEP] = o; total += o.len();",
    "iterators": "var a = [i].iter(); var b = (i,).iter(); var c = \"ab\".iter(); var d = (0..2).iter(); a.next(); b.next(); c.next(); d.next(); keep[i % KEEP] = [a, b, c, d]; total += 1;",
    "caught_error": "try { nil + i; } catch e { keep[i % KEEP] = e; total += 1; }",
    "caught_throw": "try { throw [i, \"x\"]; } catch e { keep[i % KEEP] = e; total += 1; }",
    "caught_native_error": "try { [].pop(); } catch e { keep[i % KEEP] = e; total += 1; }",
    "finally_return": "fn fr() { try { return [i]; } finally { total += 1; } } keep[i % KEEP] = fr();",
    "class_in_loop": "#[constructor(new)] class L { fn v(self) { return i; } } keep[i % KEEP] = L.new(); total += 1;",
    "derived_class_in_loop": "#[derive(P), constructor(mk)] class D { fn w(self) { return super.get; } } keep[i % KEEP] = D.mk(); total += 1;",
    "slices": "var v = [i, [i], (i,), i]; keep[i % KEEP] = [v[1..3], (1, [i], 3)[0..2], \"abcdef\"[1..4]]; total += 1;",
    "split_items": "var m = {1: [i], 2: (i,)}; keep[i % KEEP] = [\"a,b,c\".split(\",\"), m.items(), m.keys(), m.values(), \"xyz\".to_bytes()]; total += 1;",
    "interpolation": "var s = \"v=${[i % 3]} t=${(i % 2,)}\"; keep[i % KEEP] = [s]; total += 1;",
    "type_and_derives": "var o = P.new(i); keep[i % KEEP] = [type(o), o.derives(P), type(type(o))]; total += 1;",
    "reduce": "keep[i % KEEP] = [1, 2, 3].iter().reduce(|a, v| { a.push([v, i]); return a; }, []); total += 1;",
}

# kinds of object that the program cannot reach any more once the loop is over, per body: after n iterations and a forced
# collection there must be exactly as many of them as after none. (A closure that outlived the fiber it was created in
# does not need that fiber; a finished fiber whose result is kept is not needed either.)
VANISH = {
    "fiber_done": ["ObjFiber"], "fiber_nested": ["ObjFiber"], "fiber_stage_closure": ["ObjFiber"],
    "fiber_stage_param_closure": ["ObjFiber"], "fiber_stage_block_closure": ["ObjFiber"],
    "fiber_closure_after_yield": ["ObjFiber"], "fiber_method_closure": ["ObjFiber"],
    "closure": ["ObjFiber"], "iter_chain": ["ObjFiber"],
    # "+keep": exactly one per slot of the ring survives (the finished worker kept there) - not the stage fiber that called it
    "fiber_worker_chain": ["ObjFiber+keep"], "fiber_worker_yielding": ["ObjFiber+keep"], "fiber_finished_kept": ["ObjFiber+keep"],
    "fiber_finished_kept_chain": ["ObjFiber+keep"],
}


def program(names, keep):
    body = "\n    ".join("{ " + BODIES[n] + " }" for n in names)
    src = PRELUDE.replace("KEEP", str(keep)) + "for i in 0..N {\n    " + body.replace("KEEP", str(keep)) + "\n}\nprint(total);\n"
    return src
