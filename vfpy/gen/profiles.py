"""All generator profiles in one place, so that the GC / configuration checks can reuse every
profile's programs verbatim as workloads."""
import importlib

from ..common import Findings
from . import progs, feat_ctx

CHECKS_WITH_PROFILES = ["C05", "C06", "C07", "C08", "C09", "C12", "C18"]


def all_profiles(avoid=None):
    avoid = Findings().avoid_tags() if avoid is None else avoid
    out = []
    for c in CHECKS_WITH_PROFILES:
        try:
            mod = importlib.import_module("vfpy.checks." + c)
        except ImportError:
            continue
        if hasattr(mod, "profiles"):
            for name, prof in mod.profiles(avoid):
                out.append((c + "." + name, prof))
    return out


def gc_workload(rng, n):
    """n programs spread over all profiles: (name, source, modules)"""
    profs = all_profiles()
    out = []
    if not profs:
        return out
    for i in range(n):
        name, prof = profs[i % len(profs)]
        src, mods = progs.generate(rng.fork("%s/%d" % (name, i)), prof)
        if i % 3 == 2:
            # every third program runs inside a stack of other features' constructs (feat_ctx)
            src, mods, ctx = feat_ctx.nest(src, mods, rng.fork("nest/%d" % i))
            name = "%s[%s]" % (name, ">".join(ctx))
        out.append(("%s/%d" % (name, i), src, mods))
    return out
