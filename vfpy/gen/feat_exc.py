"""try / catch / finally / throw generation. Which risky constructs are produced is governed by the
avoid tags of the open known findings (KNOWN_FINDINGS.txt): a construct known to be broken on this
tree is not generated, and is generated again when its entry is removed."""

THROWABLES = ['"boom"', "42", "[1, 2]", "nil", "(1, \"t\")", "true"]
FAILING = ["nil + 1", "[1, 2][5]", "\"abc\".nope()", "undefined_global_name", "1 < \"x\"", "[].pop()", "(0..1)[0]",
           "\"a\"[3]", "-\"s\"", "{[1]: 2}", "String.from_utf8([255])", "nil()", "[1].push()", "\"x\".find(\"\", 0)"]


def tctx(g):
    if not hasattr(g, "try_ctx"):
        g.try_ctx = [[]]
    return g.try_ctx


def allowed(g, tag):
    return tag not in g.p.avoid


def s_try(g, depth):
    r = g.r
    ctx = tctx(g)
    stack = ctx[-1] if ctx else []
    in_finally = any(e["part"] == "finally" for e in stack)
    if in_finally and not allowed(g, "exc.try_in_finally"):
        return g.s_print(depth)
    has_catch = r.chance(70)
    has_finally = (not has_catch) or r.chance(50)
    if stack and not allowed(g, "exc.nested_try"):
        return g.s_print(depth)
    lines = ["try {"]
    entry = {"part": "try", "has_catch": has_catch, "has_finally": has_finally}
    stack.append(entry)
    g.in_try[-1] += 1
    body = g.block(depth - 1, 1, 3)
    # make sure something can actually throw in most try blocks
    if r.chance(70):
        # body is a flat list of lines of possibly nested statements: only its ends are statement boundaries
        if r.chance(50):
            body.insert(0, throwing_stmt(g))
        else:
            body.append(throwing_stmt(g))
    lines += g.ind(body)
    if has_catch:
        e = g.fresh("e")
        lines.append("} catch %s {" % e)
        entry["part"] = "catch"
        g.scopes.append([])
        g.declare(e, "any", const=True)
        cb = [r.choice(["print(%s);" % e if False else "print(type(%s));" % e, "print(\"caught\");",
                        "print(type(%s) == TypeError);" % e])]
        cb += g.block(depth - 1, 0, 2)
        if has_finally and allowed(g, "exc.throw_in_catch_with_finally") and r.chance(15):
            cb.append("throw %s;" % r.choice(THROWABLES + [e]))
        elif not has_finally and allowed(g, "exc.throw_in_catch") and r.chance(12) and (len(stack) > 1 or g.p.uncaught):
            cb.append("throw %s;" % r.choice(THROWABLES + [e]))
        g.scopes.pop()
        lines += g.ind(cb)
    g.in_try[-1] -= 1
    if has_finally:
        lines.append("} finally {")
        entry["part"] = "finally"
        g.in_finally[-1] += 1
        fb = ["print(\"finally %d\");" % g.counter]
        fb += g.block(depth - 1, 0, 2)
        g.in_finally[-1] -= 1
        lines += g.ind(fb)
    lines.append("}")
    stack.pop()
    return lines


def throwing_stmt(g):
    r = g.r
    c = r.below(100)
    if c < 35:
        return "throw %s;" % r.choice(THROWABLES)
    if c < 75:
        return "print(%s);" % r.choice(FAILING)
    if c < 85:
        return "if %s { throw %s; }" % (g.expr("bool", 1), r.choice(THROWABLES))
    fv = g.pick_callable()
    if fv is not None:
        return "print(%s);" % g.call_of(fv, 1)
    return "throw %s;" % r.choice(THROWABLES)


def s_tryfn(g, depth):
    """a function whose body is a try statement with every exit path selectable by its argument,
    called once per path"""
    r = g.r
    name = g.fresh("tf")
    tag = g.counter
    has_catch = r.chance(50)
    has_finally = (not has_catch) or r.chance(70)
    inner = r.chance(60)
    inner_catch = r.chance(70)
    inner_finally = (not inner_catch) or r.chance(40)
    L = ["fn %s(a) {" % name, "    print(\"enter %d\");" % tag, "    var local = a + 100;", "    try {"]
    if r.chance(50):
        L.append("        print(\"try start\");")
    if inner:
        L.append("        try {")
        L.append("            if a == 1 { throw \"i1\"; }")
        if r.chance(40):
            L.append("            if a == 4 { print(nil + 1); }")
        L.append("            print(\"inner ok\");")
        if inner_catch:
            L.append("        } catch ei {")
            L.append("            print(\"inner caught ${ei}\");")
        if inner_finally:
            L.append("        } finally {")
            L.append("            print(\"inner finally\");")
        L.append("        }")
    L.append("        if a == 2 { throw \"t2\"; }")
    if r.chance(50):
        L.append("        if a == 5 { print([1][7]); }")
    can_return = has_finally and allowed(g, "exc.return_in_try_with_finally")
    if not has_finally and allowed(g, "exc.return_in_try_no_finally"):
        can_return = True
    if can_return:
        L.append("        if a == 3 { return \"r3 ${local}\"; }")
    L.append("        print(\"try end ${local}\");")
    if has_catch:
        L.append("    } catch e {")
        L.append("        print(\"caught ${e} ${local}\");")
    if has_finally:
        L.append("    } finally {")
        L.append("        print(\"finally %d\");" % tag)
    L.append("    }")
    L.append("    print(\"after try ${local}\");")
    L.append("    return \"end %d\";" % tag)
    L.append("}")
    g.declare(name, "fn:1", const=True)
    args = r.sample([0, 1, 2, 3, 4, 5], r.range(2, 5))
    for a in args:
        L.append("try { print(%s(%d)); } catch ex { print(\"escaped\"); print(type(ex)); }" % (name, a))
    return L
