"""try / catch / finally / throw generation. Which risky constructs are produced is governed by the
avoid tags of the open known findings (KNOWN_FINDINGS.txt): a construct known to be broken on this
tree is not generated, and is generated again when its entry is removed."""

THROWABLES = ['"boom"', "42", "[1, 2]", "nil", "(1, \"t\")", "true"]
FAILING = ["nil + 1", "[1, 2][5]", "\"abc\".nope()", "undefined_global_name", "1 < \"x\"", "[].pop()", "(0..1)[0]",
           "\"a\"[3]", "-\"s\"", "{[1]: 2}", "String.from_utf8([255])", "nil()", "[1].push()", "\"x\".find(\"\", 0)"]


def tctx(g):
    if not hasattr(g, "try_ctx"):
        g.try_ctx = [[]]
    return g.try_ctx


def allowed(g, tag):
    return tag not in g.p.avoid


def s_try(g, depth):
    r = g.r
    ctx = tctx(g)
    stack = ctx[-1] if ctx else []
    in_finally = any(e["part"] == "finally" for e in stack)
    if in_finally and not allowed(g, "exc.try_in_finally"):
        return g.s_print(depth)
    has_catch = r.chance(70)
    has_finally = (not has_catch) or r.chance(50)
    if stack and not allowed(g, "exc.nested_try"):
        return g.s_print(depth)
    lines = ["try {"]
    entry = {"part": "try", "has_catch": has_catch, "has_finally": has_finally}
    stack.append(entry)
    g.in_try[-1] += 1
    body = g.block(depth - 1, 1, 3)
    # make sure something can actually throw in most try blocks
    if r.chance(70):
        # body is a flat list of lines of possibly nested statements: only its ends are statement boundaries
        if r.chance(50):
            body.insert(0, throwing_stmt(g))
        else:
            body.append(throwing_stmt(g))
    lines += g.ind(body)
    if has_catch:
        e = g.fresh("e")
        lines.append("} catch %s {" % e)
        entry["part"] = "catch"
        g.scopes.append([])
        g.declare(e, "any", const=True)
        cb = [r.choice(["print(%s);" % e if False else "print(type(%s));" % e, "print(\"caught\");",
                        "print(type(%s) == TypeError);" % e])]
        cb += g.block(depth - 1, 0, 2)
        if has_finally and allowed(g, "exc.throw_in_catch_with_finally") and r.chance(15):
            cb.append("throw %s;" % r.choice(THROWABLES + [e]))
        elif not has_finally and allowed(g, "exc.throw_in_catch") and r.chance(12) and (len(stack) > 1 or g.p.uncaught):
            cb.append("throw %s;" % r.choice(THROWABLES + [e]))
        g.scopes.pop()
        lines += g.ind(cb)
    g.in_try[-1] -= 1
    if has_finally:
        lines.append("} finally {")
        entry["part"] = "finally"
        g.in_finally[-1] += 1
        fb = ["print(\"finally %d\");" % g.counter]
        fb += g.block(depth - 1, 0, 2)
        g.in_finally[-1] -= 1
        lines += g.ind(fb)
    lines.append("}")
    stack.pop()
    return lines


def throwing_stmt(g):
    r = g.r
    c = r.below(100)
    if c < 35:
        return "throw %s;" % r.choice(THROWABLES)
    if c < 75:
        return "print(%s);" % r.choice(FAILING)
    if c < 85:
        return "if %s { throw %s; }" % (g.expr("bool", 1), r.choice(THROWABLES))
    fv = g.pick_callable()
    if fv is not None:
        return "print(%s);" % g.call_of(fv, 1)
    return "throw %s;" % r.choice(THROWABLES)


def s_tryfn(g, depth):
    """a function whose body is a try statement with every exit path selectable by its argument,
    called once per path"""
    r = g.r
    name = g.fresh("tf")
    tag = g.counter
    has_catch = r.chance(50)
    has_finally = (not has_catch) or r.chance(70)
    inner = r.chance(60)
    inner_catch = r.chance(70)
    inner_finally = (not inner_catch) or r.chance(40)
    L = ["fn %s(a) {" % name, "    print(\"enter %d\");" % tag, "    var local = a + 100;", "    try {"]
    if r.chance(50):
        L.append("        print(\"try start\");")
    if inner:
        L.append("        try {")
        L.append("            if a == 1 { throw \"i1\"; }")
        if r.chance(40):
            L.append("            if a == 4 { print(nil + 1); }")
        L.append("            print(\"inner ok\");")
        if inner_catch:
            L.append("        } catch ei {")
            L.append("            print(\"inner caught ${ei}\");")
        if inner_finally:
            L.append("        } finally {")
            L.append("            print(\"inner finally\");")
        L.append("        }")
    L.append("        if a == 2 { throw \"t2\"; }")
    if r.chance(50):
        L.append("        if a == 5 { print([1][7]); }")
    can_return = has_finally and allowed(g, "exc.return_in_try_with_finally")
    if not has_finally and allowed(g, "exc.return_in_try_no_finally"):
        can_return = True
    if can_return:
        L.append("        if a == 3 { return \"r3 ${local}\"; }")
    L.append("        print(\"try end ${local}\");")
    if has_catch:
        L.append("    } catch e {")
        L.append("        print(\"caught ${e} ${local}\");")
    if has_finally:
        L.append("    } finally {")
        L.append("        print(\"finally %d\");" % tag)
    L.append("    }")
    L.append("    print(\"after try ${local}\");")
    L.append("    return \"end %d\";" % tag)
    L.append("}")
    g.declare(name, "fn:1", const=True)
    args = r.sample([0, 1, 2, 3, 4, 5], r.range(2, 5))
    for a in args:
        L.append("try { print(%s(%d)); } catch ex { print(\"escaped\"); print(type(ex)); }" % (name, a))
    return L


def xmod_program(rng):
    """exceptions crossing module boundaries in both directions: thrown in an imported module's function (explicitly, by a
    failing built-in, from depth, from a method) and handled in main, and thrown by a closure of main while an imported
    function is calling it and handled either in the module or back in main. Both modules have globals of the same names,
    and every handler / finally block / statement after the try reads and writes its own module's globals."""
    r = rng
    lib = ["var label = \"lib\";", "var count = 100;", "var log = [];",
           "fn deep(n) { if n <= 0 { throw \"deep\"; } return deep(n - 1); }",
           "fn fail(kind) {", "    count = count + 1;", "    if kind == 0 { throw \"explicit\"; }", "    if kind == 1 { return nil + 1; }",
           "    if kind == 2 { return [1][5]; }", "    if kind == 3 { return deep(3); }", "    if kind == 4 { return {}.get(\"k\"); }",
           "    if kind == 5 { throw ValueError.new(label); }", "    return [label, count];", "}",
           "fn call_back(f) { count = count + 1; var got = f(label); count = count + 10; return got; }",
           "fn guarded(f) {", "    var res = nil;", "    try { res = f(label); }", "    catch e { count = count + 1000; log.push(label); res = [\"lib caught\", label, count]; }", "    return res;", "}",
           "fn guarded_finally(f) {", "    var res = nil;", "    try { res = f(label); } finally { count = count + 5; log.push(label); }", "    return res;", "}",
           "#[constructor(new)] class Thing { fn go(self, k) { return fail(k); } fn name(self) { return label; } }", "fn state() { return [label, count, log]; }"]
    M = ["import \"xlib\" as xlib;", "var label = \"main\";", "var count = 0;", "var seen = [];"]
    n = r.range(3, 8)
    for i in range(n):
        k = r.below(8)
        kind = r.below(7)
        after = r.choice(["count = count + 1; print([label, count]);", "seen.push(label); print(seen.len());", "var g%d = label + \"!\"; print(g%d);" % (i, i),
                          "fn h%d() { return label; } print(h%d());" % (i, i), "print(xlib.state());"])
        fin = r.choice(["", "", " finally { count = count + 7; print([\"fin\", label]); }"])
        if k <= 2:
            M.append("try { print(xlib.fail(%d)); } catch e { %s }%s" % (kind, after, fin))
        elif k == 3:
            M.append("fn w%d(k) { var local = \"L\"; var res = nil; try { res = xlib.fail(k); } catch e { count = count + 1; res = [local, label, count]; }%s return res; }" % (i, fin))
            M.append("print(w%d(%d)); print(w%d(6));" % (i, kind, i))
        elif k == 4:
            M.append("try { print(xlib.call_back(|l| { if %s { throw \"from main closure\"; } return l + label; })); } catch e { %s }%s" % (
                r.choice(["true", "false", "count > 1"]), after, fin))
        elif k == 5:
            M.append("print(xlib.guarded(|l| { %s return [l, label]; })); %s" % (r.choice(["throw \"x\";", "nil.foo;", ""]), after))
        elif k == 6:
            M.append("try { print(xlib.guarded_finally(|l| { %s return [l, label]; })); } catch e { %s }" % (r.choice(["throw \"y\";", "[].pop();", ""]), after))
        else:
            M.append("try { var th = xlib.Thing.new(); print(th.name()); print(th.go(%d)); } catch e { %s }%s" % (kind, after, fin))
        if r.chance(40):
            M.append("print([label, count]);")
    M.append("print([label, count, seen]); print(xlib.state());")
    if r.chance(25):
        M.append("xlib.fail(%d);" % r.below(6))
    return "\n".join(M) + "\n", [("xlib", "\n".join(lib) + "\n")]


FAILING_CALLS = ["Fiber.yield(l0)", "Fiber.yield()", "Fiber.yield(l0, l1)", "[].pop()", "[1].pop(1)", "\"x\".to_num()", "done_fiber.call()", "done_fiber.call(l0)",
                 "[1].push()", "[1].push(1, 2)", "\"a\".find(1, 2)", "\"a\".find(\"a\")", "String.from_utf8([255])", "String.from_utf8(l0, l1)", "type()", "type(l0, l1)",
                 "{}.insert([1], 1)", "{}.insert(1)", "\"s\".replace(1, 2)", "\"s\".replace(\"s\")", "(0..3).iter().next(1)", "[1, 2].iter().next(l0)",
                 "Fiber.new()", "Fiber.new(1)", "Fiber.new(|a, b| 1)", "\"abc\".split()", "\"abc\".char_byte_index(9)", "String.from_code_points([55296])",
                 "l0.len()", "l1.nope(l0)", "nil.call()", "[1][l1]", "l0 + l1", "-l1", "l1()", "l1(l0, l0)", "Box2.new()", "Box2.new(1, 2, 3)", "Box2.new(1, 2).m()",
                 "Box2.new(1, 2).m(1, 2)", "Box2.s(1)", "[3, 4].iter().map(|a, b| a).collect()", "[3, 4].iter().reduce(|a| a, 0)"]


def local_integrity_program(rng):
    """a failing call of every kind (natives with too few / too many / ill-typed arguments, natives that fail after taking
    their arguments, methods, constructors, lambdas, operators) made directly in the function that owns the try/catch,
    with locals declared before the try, inside it and after it: the handler and the code after it must find every
    local intact"""
    r = rng
    L = ["#[constructor(new)] class Box2 { fn m(self, a) { return a; } #[static] fn s() { return 1; } }", "class Box2b { #[constructor] fn new(self, a, b) { self.a = a; } }",
         "var done_fiber = Fiber.new(|| 1); done_fiber.call();",
         "fn deeper(f, n) { var pad = [n]; if n <= 0 { return f(); } return deeper(f, n - 1); }"]
    L[0] = "class Box2 { #[constructor] fn new(self, a, b) { self.a = a; self.b = b; } fn m(self, a) { return a; } #[static] fn s() { return 1; } }"
    nf = r.range(1, 4)
    for fi in range(nf):
        nloc = r.range(2, 6)
        body = ["fn f%d(p) {" % fi, "    var l0 = [p, \"l0\"];", "    var l1 = \"l1-${p}\";"]
        for k in range(2, nloc):
            body.append("    var l%d = %s;" % (k, r.choice(["(p, %d)" % k, "\"s%d\"" % k, "%d" % (k * 11), "|| l0", "[l1]"])))
        # closures over the handling function's own locals, made before the try: the exception (thrown here or several
        # frames down) must leave variable and closure looking at the same thing
        shared = r.chance(60)
        if shared:
            body.append("    var getl = || [l0, l1];")
            body.append("    var setl = |v| { l1 = v; l0.push(\"via setl\"); return l1; };")
        ntry = r.range(1, 3)
        for t in range(ntry):
            call = r.choice(FAILING_CALLS)
            if r.chance(40):
                call = "deeper(|| %s, %d)" % (call, r.range(0, 3))
            inner = r.chance(40)
            body.append("    try {")
            if inner:
                body.append("        var t%d = \"in-try-%d\";" % (t, t))
            form = r.below(4)
            if form == 0:
                body.append("        %s;" % call)
            elif form == 1:
                body.append("        var got%d = %s;" % (t, call))
            elif form == 2:
                body.append("        print([\"before\", %s, \"after\"]);" % call)
            else:
                body.append("        l0.push(%s);" % call)
            body.append("        print(\"completed %d\");" % t)
            body.append("    } catch e {")
            body.append("        print([type(e), %s]);" % ", ".join("l%d" % k if not False else "" for k in range(min(nloc, 2))))
            body.append("    }")
            if r.chance(50):
                body.append("    var m%d = [\"mid\", l1];" % t)
                body.append("    print(m%d);" % t)
            if shared:
                body.append("    l1 = l1 + \"+direct%d\";" % t)
                body.append("    print(getl());")
                body.append("    print(setl(\"set%d\"));" % t)
                body.append("    print([l0, l1]);")
        shown = ["l%d" % k for k in range(nloc) if k < 2]
        body.append("    print([%s]);" % ", ".join(shown))
        for k in range(2, nloc):
            body.append("    try { print(type(l%d)); } catch e2 { print(\"broken local\"); }" % k)
        body.append("    return l0;")
        body.append("}")
        L += body
        L.append("print(f%d(%d));" % (fi, fi + 1))
    # the same at top level and inside a fiber
    call = r.choice(FAILING_CALLS)
    L += ["var l0 = [\"top\"]; var l1 = \"top-l1\";", "{", "    var b0 = \"b0\"; var b1 = [1, 2];",
          "    try { var x = %s; print(\"completed\"); } catch e { print([type(e), b0, b1]); }" % call, "    var b2 = (b0, b1);", "    print([b0, b1, b2]);", "}"]
    call = r.choice([c for c in FAILING_CALLS if not c.startswith("Fiber.yield")])
    L += ["var fbx = Fiber.new(|p| {", "    var l0 = [p]; var l1 = \"in-fiber\";", "    try { print(%s); } catch e { print([type(e), l0, l1]); }" % call,
          "    var got = Fiber.yield(l0);", "    return [l0, l1, got];", "});", "print(fbx.call(7));", "print(fbx.call(8));"]
    return "\n".join(L) + "\n"


def finally_paths_program(rng):
    """every way of leaving a try that has a finally - `return value`, a bare `return`, falling off the end, a throw caught
    by the caller, a constructor's `return` - with a finally block that does real work through script-level calls
    (a function, a method, a closure, an iterator chain of the core library: none of them contains a try). Afterwards the
    program checks what came back, how often each cleanup ran, and that no handler was left installed (a later throw must
    reach the handler that textually encloses it, and a last uncaught throw must be reported as such)."""
    r = rng
    L = ["var log = [];", "fn note(x) { log.push(x); return x; }",
         "#[constructor(new)] class Res { fn release(self, tag) { log.push([\"released\", tag]); return tag; } }", "var res = Res.new();",
         "var bump = |x| { log.push([\"bump\", x]); return x + 1; };"]
    cleanups = ["note(\"c%(k)d\");", "res.release(%(k)d);", "bump(%(k)d);", "log.push([1, 2, 3].iter().map(|v| v * %(k)d).collect());",
                "note(res.release(bump(%(k)d)));", "log.push(\"plain %(k)d\");"]   # nothing that declares a local: known finding K-exc-var-in-finally
    # clean-up that may itself fail and deals with the failure on the spot (a try / catch inside the finally block, written
    # there or in a function, a method or a closure it calls, failing by throw or by a built-in error): only in finally
    # blocks that no exception passes through - with an exception in flight it is the known finding K-exc-try-in-finally
    L += ["fn tolerant(k) { try { if k % 2 == 0 { throw [\"busy\", k]; } log.push([\"freed\", k]); } catch e { log.push([\"tolerated\", e]); } return k; }",
          "fn tolerant_deep(k) { fn inner(j) { if j % 2 == 1 { return [j][j + 3]; } return j; } try { log.push(inner(k)); } catch e { log.push([\"deep\", type(e) == IndexError]); } }",
          "var tolerant_closure = |k| { try { nil + k; } catch e { log.push([\"closure tolerated\", k]); } finally { log.push(\"closure finally\"); } };"]
    tolerant = ["tolerant(%(k)d);", "tolerant(%(k)d + 1);", "tolerant_deep(%(k)d);", "tolerant_deep(%(k)d + 1);", "tolerant_closure(%(k)d);",
                "try { throw \"direct %(k)d\"; } catch e { log.push([\"direct\", e]); }",
                "try { log.push([0, 1][%(k)d + 2]); } catch e { log.push(\"direct index\"); }",
                "try { note(\"quiet %(k)d\"); } catch e { log.push(\"never\"); }",
                "tolerant(tolerant(%(k)d) + 1);",
                # a fiber with a try / finally (and a return through it) of its own, started and finished - or left
                # suspended inside its try block - while the enclosing function's return is waiting
                "var fb%(k)d = Fiber.new(|| { try { log.push(Fiber.yield(%(k)d)); } finally { log.push(\"fiber finally\"); } return %(k)d + 1; }); log.push(fb%(k)d.call()); log.push(fb%(k)d.call(\"resumed\"));" if False else
                "log.push(Fiber.new(|| { try { return tolerant(%(k)d); } finally { log.push(\"fiber finally\"); } }).call());",
                "log.push(Fiber.new(|| { try { Fiber.yield(%(k)d); } finally { log.push(\"never reached\"); } }).call());",
                "log.push([%(k)d, %(k)d + 1].iter().map(|q| tolerant(q)).collect());"]
    nf = r.range(2, 5)
    for k in range(nf):
        exitk = r.choice(["return_value", "return_bare", "fall", "throw", "return_call", "cond_return"])
        pool = cleanups
        if exitk != "throw" and "exc.try_in_finally_no_exception" not in getattr(r, "avoid", ()) and r.chance(60):
            pool = cleanups + tolerant * 2
        cl = " ".join(r.choice(pool) % {"k": k} for _ in range(r.range(1, 3)))
        body = {"return_value": "return [\"v\", a];", "return_bare": "if a > 0 { return; }", "fall": "note([\"fall\", a]);",
                "throw": "throw [\"t\", a];", "return_call": "return note([\"rc\", a]);",
                "cond_return": "if a == 1 { return \"one\"; } if a == 2 { return; } note(\"past\");"}[exitk]
        L += ["fn f%d(a) {" % k, "    var before = [a];", "    try {", "        " + body, "    } finally {", "        " + cl, "    }",
              "    note([\"after try\", a, before]);", "    return \"end%d\";" % k, "}"]
        for a in r.sample([0, 1, 2], 2):
            L.append("try { print(f%d(%d)); } catch e { print([\"caller caught\", e]); }" % (k, a))
    if r.chance(60):
        L += ["class Conn {", "    #[constructor]", "    fn open(self, port) {", "        self.port = port;", "        try {",
              "            if port == 0 { return; }", "            self.ready = true;", "        } finally {", "            note([\"ctor cleanup\", port]);", "        }",
              "        self.late = port;", "    }", "}",
              "for p in [0, 7] { var c = Conn.open(p); try { print([c.port, c.late]); } catch e { print([c.port, type(e)]); } }"]
    L += ["print(log);", "try { throw \"later\"; } catch e { print([\"own handler\", e]); }",
          "fn thrower() { throw \"from thrower\"; }", "try { thrower(); } catch e { print([\"own handler 2\", e]); }", "print(log.len());"]
    if r.chance(50):
        L.append("throw \"final uncaught\";")
    return "\n".join(L) + "\n"
