"""order-sensitive operands: a later operand of the same expression changes what an earlier operand has already read
(a vector, a map, an instance field, a variable). Wherever an operand is turned into text or a number at once, the result
must show the state at the time that operand was evaluated; wherever a reference is kept, the final state."""


def program(rng):
    r = rng
    L = ["var v = [1, 2];", "var m = {\"k\": 1};", "var n = 10;", "var log = [];",
         "#[constructor(new)] class Cell { fn set(self, x) { self.x = x; return x; } }", "var c = Cell.new(); c.x = 0;",
         "fn push_v(x) { v.push(x); return x; }", "fn set_v0(x) { v[0] = x; return x; }", "fn ins_m(x) { m.insert(\"k\", x); return x; }",
         "fn bump_n(x) { n = n + x; return x; }", "fn note(x) { log.push(x); return x; }", "fn set_c(x) { return c.set(x); }"]
    forms = [
        "print(\"v=${v} pushed=${push_v(%(a)d)} v=${v}\");",
        "print(\"v=${v} set=${set_v0(%(a)d)} v=${v} len=${v.len()}\");",
        "print(\"${m} -> ${ins_m(%(a)d)} -> ${m}\");",
        "print(\"n=${n} ${bump_n(%(a)d)} n=${n}\");",
        "print(\"${c.x}|${set_c(%(a)d)}|${c.x}\");",
        "print(\"log=${log} noted=${note(%(a)d)} log=${log}\");",
        "print(String.from(v) + String.from(push_v(%(a)d)) + String.from(v));",
        "print(v.len() + push_v(%(a)d) + v.len());",
        "print([v.len(), push_v(%(a)d), v.len(), String.from(v)]);",
        "print((n, bump_n(%(a)d), n));",
        "print({n: \"before\", bump_n(%(a)d): \"mid\"}.len());",
        "fn three(a, b, c) { return [a, b, c]; }\nprint(three(n, bump_n(%(a)d), n));",
        "fn three_s(a, b, c) { return [a, b, c]; }\nprint(three_s(String.from(v), push_v(%(a)d), String.from(v)));",
        "n += bump_n(%(a)d);\nprint(n);",
        "n = n + bump_n(%(a)d) + n;\nprint(n);",
        "c.x += set_c(%(a)d);\nprint(c.x);",
        "v[0] = v[0] + set_v0(%(a)d);\nprint(v);",
        "v[v.len() - 1] = push_v(%(a)d) + v.len();\nprint(v);",
        "print(n < bump_n(%(a)d));\nprint(n);",
        "print(n..bump_n(%(a)d) + n);",
        "print(v[v.len() - 1] + push_v(%(a)d) + v[v.len() - 1]);",
        "print(v[0..v.len()].len() + push_v(%(a)d) + v[0..v.len()].len());",
        "print(\"${\"inner ${v.len()} ${push_v(%(a)d)} ${v.len()}\"} outer ${v.len()}\");",
        "print(c.x == set_c(%(a)d));",
        "print(nil || note(%(a)d) && log.len());",
        "print([v, push_v(%(a)d), v].len());\nprint(v);",
        "var t = (v.len(), push_v(%(a)d), v.len());\nprint(t);",
        "for q in [v.len(), push_v(%(a)d), v.len()] { print(q); }",
        "print(type(v) == type(push_v(%(a)d)));",
        "print(m.get(\"k\") + ins_m(%(a)d) + m.get(\"k\"));",
    ]
    for i in range(r.range(5, 14)):
        L.append(r.choice(forms) % {"a": r.range(2, 9) * 10 + i})
    L.append("print([v, m, n, log, c.x]);")
    return "\n".join(L) + "\n"
