"""snippet histories for C15: one interpreter fed a sequence of snippets (as the REPL does) mixing
definitions, statements, compile errors, uncaught errors from every depth, imports and resets, with a
fixed probe battery after failing snippets."""

PROBE = '''try { print("probe try"); } finally { print("probe finally"); }
var pf = Fiber.new(|a| { var b = Fiber.yield(a + 1); return b * 2; });
print(pf.call(1)); print(pf.call(5)); print(pf.has_finished());
#[constructor(new)] class ProbeK { fn m(self) { return "probe m"; } }
print(ProbeK.new().m());
import "probe_mod" as pm; print(pm.v);
fn mkc() { var n = 0; return || { n = n + 1; return n; }; }
var pc = mkc(); pc(); print(pc());
try { throw "probe throw"; } catch e { print(e); } finally { print("probe done"); }
for x in [1, 2].iter().filter(|q| q > 1) { print(x); }
'''

MODS = [("probe_mod", "var v = \"probe module\";\n"),
        ("good", "print(\"loading good\");\nvar counter = 0;\nfn bump() { counter = counter + 1; return counter; }\n"),
        ("throws", "print(\"loading throws\");\nvar before = 1;\nthrow \"module failed\";\n"),
        ("broken", "var = ;\n"),
        ("needs_good", "import \"good\";\nfn twice() { return [good.bump(), good.bump()]; }\n")]


def history(rng, n=None):
    r = rng
    steps = []
    defined = []
    n = n or r.range(3, 12)
    k = 0
    for _ in range(n):
        k += 1
        c = r.below(100)
        failing = False
        if c < 14:
            name = "g%d" % k
            steps.append(("snip", "var %s = %s;\nprint(%s);\n" % (name, r.choice(["1", "\"s\"", "[1, 2]", "(1, \"t\")", "{1: 2}"]), name)))
            defined.append(name)
        elif c < 24:
            name = "f%d" % k
            steps.append(("snip", "fn %s(a) { return [a, %d]; }\nprint(%s(1));\n" % (name, k, name)))
            defined.append(name)
        elif c < 32:
            name = "K%d" % k
            steps.append(("snip", "#[constructor(new)] class %s { fn id(self) { return %d; } #[static] fn s() { return \"s%d\"; } }\nprint(%s.new().id());\n" % (name, k, k, name)))
            defined.append(name)
        elif c < 42 and defined:
            name = r.choice(defined)
            steps.append(("snip", "try { print(%s); } catch e { print(type(e)); print(e.context); }\n" % name))
        elif c < 50:
            steps.append(("snip", r.choice(["var = 1;\n", "print(1;\n", "fn () {}\n", "class { }\n", "var ok%d = 1;\nvar s = \"unterminated;\n" % k,
                                            "print(\"fine\");\n}\n", "return 1;\n"])))
            failing = True
        elif c < 58:
            name = "kept%d" % k
            steps.append(("snip", "var %s = %d;\nprint(\"defined\");\n%s\nvar never%d = 1;\n" % (
                name, k, r.choice(["throw \"top\";", "nil + 1;", "undefined_thing;", "[1][9];", "throw [1, 2];", "throw RuntimeError;"]), k)))
            defined.append(name)
            failing = True
        elif c < 61:
            # a failing statement that must leave no binding behind: assignment to a name nobody declared (at top level,
            # in a function, in a fiber, through a compound operator), a declaration whose initialiser fails
            name = "ghost%d" % k
            form = r.choice(["%(n)s = 10;", "fn setg%(k)d() { %(n)s = 10; }\nsetg%(k)d();", "var fbg%(k)d = Fiber.new(|| { %(n)s = 10; });\nfbg%(k)d.call();",
                             "%(n)s += 1;", "var %(n)s = nil + 1;", "var %(n)s = undefined_thing;", "var %(n)s = [1][7];",
                             "fn %(n)s() { return 1; }\n%(n)s = undefined_thing;", "%(n)s = %(n)s;"]) % {"n": name, "k": k}
            steps.append(("snip", "print(\"before\");\n%s\nprint(\"not reached\");\n" % form))
            steps.append(("snip", "try { print(%s); } catch e { print(type(e)); print(e.context); }\n" % name))
            defined.append(name)
            failing = True
        elif c < 66 and r.chance(75):
            # a closure that captured a local of a frame / block / fiber killed by the uncaught error, used by later snippets
            fail = r.choice(["throw \"x\";", "nil + 1;", "[].pop();", "undefined_thing;"])
            shape = r.below(8)
            if shape == 4:
                # the captured variable lives in a frame *below* the one that fails (one to three calls deeper)
                depth = r.range(1, 3)
                chain = "".join("fn fail%d_%d() { var pad%d = [%d]; %s }\n" % (k, d, d, d, ("fail%d_%d();" % (k, d + 1)) if d < depth else fail) for d in range(1, depth + 1))
                body = chain + "fn holder%d() { var pad = 0; var loc = [%d]; cap%d = [|| loc, |v| { loc = v; return loc; }]; fail%d_1(); }\nholder%d();" % (k, k, k, k, k)
            elif shape == 5:
                # ... in a function of the main fiber that is waiting for a fiber which fails
                body = ("fn holder%d() { var loc = [%d, \"m\"]; cap%d = [|| loc, |v| { loc = v; return loc; }]; var fb = Fiber.new(|| { var own = [1]; %s }); return fb.call(); }\nholder%d();"
                        % (k, k, k, fail, k))
            elif shape == 6:
                # ... in a fiber in the middle of a chain of waiting fibers
                body = ("var mid%d = Fiber.new(|| { var loc = [%d, \"mid\"]; cap%d = [|| loc, |v| { loc = v; return loc; }]; var inner = Fiber.new(|| { %s }); return inner.call(); });\n"
                        "fn top%d() { var tl = \"top\"; return mid%d.call(); }\ntop%d();" % (k, k, k, fail, k, k, k))
            elif shape == 7:
                # ... two variables of two frames, the upper one failing
                body = ("fn upper%d(g) { var up = [%d, \"u\"]; cap%d = [|| [g(), up], |v| { up = v; return up; }]; %s }\nfn lower%d() { var low = [\"low\"]; return upper%d(|| low); }\nlower%d();"
                        % (k, k, k, fail, k, k, k))
            elif shape == 0:
                body = "fn mk%d() { var pad = 0; var loc = [%d]; cap%d = [|| loc, |v| { loc = v; return loc; }]; %s }\nmk%d();" % (k, k, k, fail, k)
            elif shape == 1:
                body = "{ var loc = [%d]; var other = \"o\"; cap%d = [|| [loc, other], |v| { loc = v; return loc; }]; %s }" % (k, k, fail)
            elif shape == 2:
                body = "var fbc%d = Fiber.new(|| { var loc = [%d]; cap%d = [|| loc, |v| { loc = v; return loc; }]; %s });\nfbc%d.call();" % (k, k, k, fail, k)
            else:
                body = "fn inner%d(a) { var loc = [a, %d]; cap%d = [|| loc, |v| { loc = v; return loc; }]; %s }\nfn outer%d() { var keep = \"k\"; return inner%d(keep); }\nouter%d();" % (k, k, k, fail, k, k, k)
            steps.append(("snip", "var cap%d = nil;\n%s\nprint(\"not reached\");\n" % (k, body)))
            steps.append(("snip", "var junk%d = []; for i in 0..20 { junk%d.push([i, \"j\"]); }\nprint(cap%d[0]());\nprint(cap%d[1](\"w\"));\nprint(cap%d[0]());\n" % (k, k, k, k, k)))
            failing = True
        elif c < 64:
            steps.append(("snip", "fn a%d() { return b%d() + 1; }\nfn b%d() { %s }\nprint(a%d());\n" % (
                k, k, k, r.choice(["throw \"deep\";", "return nil + 1;", "return [].pop();"]), k)))
            failing = True
        elif c < 70:
            steps.append(("snip", "var fb%d = Fiber.new(|| { print(\"in fiber\"); %s });\nprint(fb%d.call());\n" % (
                k, r.choice(["throw \"from fiber\";", "return nil.x;", "Fiber.yield(1); throw \"later\";"]), k)))
            failing = r.chance(100)
            steps.append(("snip", "print(fb%d.has_finished());\ntry { print(fb%d.call()); } catch e { print(type(e)); print(e.context); }\n" % (k, k)))
        elif c < 73:
            # a chain of fibers dies with the run: afterwards none of them is running, resumable or "already called"
            fail = r.choice(["throw \"inner\";", "nil + 1;", "[].pop();"])
            steps.append(("snip", "var ch%d = [];\nvar outer%d = Fiber.new(|| {\n    var mid = Fiber.new(|| {\n        var inner = Fiber.new(|| { print(\"inner runs\"); %s });\n"
                                  "        ch%d.push(inner);\n        return inner.call();\n    });\n    ch%d.push(mid);\n    return mid.call();\n});\nch%d.push(outer%d);\nprint(outer%d.call());\n"
                          % (k, k, fail, k, k, k, k, k)))
            steps.append(("snip", "for f in ch%d { print(f.has_finished()); try { print(f.call()); } catch e { print(type(e)); print(e.context); } }\n" % k))
            failing = True
        elif c < 76:
            steps.append(("snip", "try { print(\"t\"); %s } finally { print(\"cleanup\"); }\nprint(\"not reached\");\n" % r.choice(
                ["throw \"x\";", "nil();", "print(undefined_q);"])))
            failing = True
        elif c < 80:
            steps.append(("snip", "var notclass%d = 5;\n#[derive(notclass%d)] class Bad%d { fn m(self) { return 1; } }\nprint(\"not reached\");\n" % (k, k, k)))
            failing = True
        elif c < 90:
            mod = r.choice(["good", "throws", "broken", "missing", "needs_good", "good"])
            steps.append(("snip", "import \"%s\" as im%d;\nprint(im%d);\n%s" % (mod, k, k, "print(im%d.bump());\n" % k if mod == "good" else "")))
            failing = mod in ("throws", "broken", "missing")
        elif c < 96:
            if r.chance(60):
                # globals of every kind of value (aliases of built-in functions and classes, bound natives, closures, fibers,
                # modules, instances) must all be gone after the reset, and the built-ins themselves must be back even if
                # the program had rebound them
                kinds = [("al_print%d" % k, "print"), ("al_type%d" % k, "type"), ("al_from%d" % k, "String.from"), ("al_push%d" % k, "[1].push"),
                         ("al_cls%d" % k, "Vec"), ("al_err%d" % k, "TypeError"), ("al_lam%d" % k, "|a| a"), ("al_fib%d" % k, "Fiber.new(|| 1)"),
                         ("al_inst%d" % k, "TypeError.new(\"ctx\")"), ("al_num%d" % k, "7"), ("al_nil%d" % k, "nil")]
                picked = r.sample(kinds, r.range(3, 7))
                rebind = r.choice(["", "type = 5;", "var print2 = print; String = nil;", "clock = nil;", "Error = 1;"])
                steps.append(("snip", "".join("var %s = %s;\n" % kv for kv in picked) + "import \"good\" as al_mod%d;\n%s\nprint(\"aliases defined\");\n" % (k, rebind)))
                steps.append(("reset",))
                steps.append(("snip", "".join("try { print(type(%s)); } catch e { print(type(e)); print(e.context); }\n" % n for n, _ in picked) +
                              "try { print(al_mod%d); } catch e { print(type(e)); }\nprint([type(type), type(String), type(clock), type(Error), type(print)]);\n" % k))
                defined = []
            steps.append(("reset",))
            steps.append(("snip", "".join("try { print(%s); } catch e { print(type(e)); }\n" % d for d in defined[-4:]) + "print(Error); print(StopIter);\n"))
            steps.append(("snip", PROBE))
            defined = []
        else:
            steps.append(("snip", "var susp%d = Fiber.new(|| { Fiber.yield(1); nil + 1; });\nprint(susp%d.call());\nsusp%d.call();\n" % (k, k, k)))
            failing = True
        if failing and r.chance(70):
            steps.append(("snip", PROBE))
    steps.append(("snip", PROBE))
    return steps, MODS


KEEP_SOURCES = [
    "var counter = 0;\nfn bump() { counter = counter + 1; return counter; }\nprint([bump(), bump()]);\n",
    "fn outer(n) { fn inner(k) { return [k, n]; } return inner; }\nvar made = outer(3);\nprint(made(4));\nprint([1, 2, 3].iter().map(|v| made(v)).collect());\n",
    "#[constructor(new)] class Kept { fn tag(self) { return \"kept\"; } #[static] fn make() { return Self.new(); } }\nprint(Kept.make().tag());\nvar k = Kept.new();\nprint(type(k));\n",
    "var acc = [];\nfor i in 0..4 { acc.push(\"s${i}\" + \"x\"); }\nprint(acc);\nvar m = {\"a\": acc, (1, 2): 3};\nprint(m.get((1, 2)));\n",
    "var fb = Fiber.new(|a| { var got = Fiber.yield([a]); return [a, got]; });\nprint(fb.call(1));\nprint(fb.call(2));\n",
    "fn risky(n) { if n > 1 { throw \"too big: ${n}\"; } return n; }\ntry { print(risky(1)); print(risky(2)); } catch e { print(e); } finally { print(\"fin\"); }\n",
    "print(\"before\");\nnil + 1;\nprint(\"not reached\");\n",
    "var words = \"a,b,c\".split(\",\");\nprint(words);\nprint(words.iter().filter(|w| w != \"b\").collect());\n",
]


def host_history(rng):
    """the embedding program's view: sources compiled once and kept (the host holds the compiled function), executed
    several times, also after reset(); natives defined in existing and in not-yet-existing modules and read back; ordinary
    snippets in between that use what the host defined"""
    r = rng
    steps = []
    nkeep = r.range(1, 3)
    srcs = r.sample(KEEP_SOURCES, nkeep)
    for s_ in srcs:
        steps.append(("keep", s_))
    natives = []
    for k in range(r.range(4, 12)):
        c = r.below(100)
        if c < 35:
            steps.append(("exec", r.below(nkeep)))
        elif c < 47:
            steps.append(("reset",))
        elif c < 62:
            mod = r.choice(["main", "main", "plug%d" % r.below(3), "good"])
            name = "hn%d" % k
            steps.append(("native", mod, name))
            natives.append((mod, name))
            steps.append(("snip", "var junk%d = []; for i in 0..12 { junk%d.push([i, \"j${i}\"]); }\nprint(junk%d.len());\n" % (k, k, k)))
            steps.append(("getg", mod, name))
        elif c < 74 and natives:
            mod, name = r.choice(natives)
            steps.append(("getg", mod, name))
            if mod == "main":
                steps.append(("snip", "try { print(%s([1, \"via native\"])); } catch e { print(type(e)); print(e.context); }\n" % name))
        elif c < 84:
            steps.append(("snip", "try { import \"%s\" as im%d; print(im%d); } catch e { print(type(e)); print(e.context); }\n" % (r.choice(["good", "plug0", "plug1", "probe_mod"]), k, k)))
        elif c < 92:
            steps.append(("getg", "main", r.choice(["counter", "made", "Kept", "acc", "fb", "words", "nothing_here", "print", "Error"])))
        else:
            steps.append(("snip", PROBE))
    steps.append(("exec", r.below(nkeep)))
    steps.append(("snip", PROBE))
    return steps, MODS


def history2(rng):
    """more histories: a snippet that dies inside try / finally (no catch) after a closure captured the first local of
    the try block; imports that fail (missing, uncompilable, throwing) followed by reset() and a re-import of the same
    path, compared with what a new interpreter does; globals defined by the failing snippet before it failed"""
    r = rng
    steps = []
    tried = []
    for k in range(r.range(3, 9)):
        c = r.below(100)
        if c < 30:
            fail = r.choice(["throw \"boom\";", "nil + 1;", "[].pop();", "deep%d(2);" % k])
            steps.append(("snip", "var get%d = nil; var set%d = nil;\nfn deep%d(n) { if n == 0 { throw \"deep\"; } return deep%d(n - 1); }\n"
                                  "fn run%d() {\n    try {\n        var first = 41;\n        var second = \"total\";\n        get%d = || [first, second];\n"
                                  "        set%d = |v| { first = v; return first; };\n        %s\n        print(\"not reached\");\n    } finally {\n        print(\"cleanup %d\");\n    }\n}\nrun%d();\n"
                          % (k, k, k, k, k, k, k, fail, k, k)))
            steps.append(("snip", "print(get%d());\nprint(set%d(42));\nprint(get%d());\n" % (k, k, k)))
        elif c < 60:
            mod = r.choice(["throws", "broken", "missing", "good", "needs_good"])
            tried.append(mod)
            steps.append(("snip", "import \"%s\" as im%d;\nprint(im%d);\n" % (mod, k, k)))
        elif c < 80 and tried:
            steps.append(("reset",))
            for mod in r.sample(tried, min(len(tried), 3)):
                steps.append(("snip", "try { import \"%s\" as again; print(again); } catch e { print(type(e)); print(e.context); }\n" % mod))
            tried = []
        elif c < 90 and tried:
            mod = r.choice(tried)
            steps.append(("snip", "try { import \"%s\" as again%d; print(again%d); } catch e { print(type(e)); print(e.context); }\n" % (mod, k, k)))
        else:
            steps.append(("snip", PROBE))
    steps.append(("snip", PROBE))
    return steps, MODS


def long_history(rng):
    """the same kinds of snippets, 40 to 150 of them on one interpreter: whatever a failed run, an import, a reset or a
    probe battery leaves behind has dozens of later runs in which to show"""
    return history(rng, n=rng.choice([40, 60, 64, 65, 100, 128, 150]))


DEEP_PROBE = '''fn pr_rec(n) { if n == 0 { return 0; } return 1 + pr_rec(n - 1); }
print(pr_rec(55));
fn pr_fib(n) { if n == 0 { return "bottom"; } var f = Fiber.new(|| pr_fib(n - 1)); return f.call(); }
print(pr_fib(12));
fn pr_try(n) { if n == 0 { throw "deep"; } try { return pr_try(n - 1); } finally { pr_count += 1; } }
var pr_count = 0; try { pr_try(40); } catch e { print(e); } print(pr_count);
var pr_gen = Fiber.new(|| { for i in 0..3 { Fiber.yield(i); } return "end"; });
print([pr_gen.call(), pr_gen.call(), pr_gen.call(), pr_gen.call(), pr_gen.has_finished()]);
'''


def repeat_history(rng):
    """one kind of failing snippet repeated 10 to 300 times on one interpreter, then the probe batteries (incl. 55 frames of
    recursion, a dozen nested fibers, forty nested handlers): whatever each failure leaves behind - a counter not wound
    back, a handler, a frame, a registry entry - has been left behind that many times"""
    r = rng
    n = r.choice([10, 33, 64, 65, 70, 130, 300])
    kind = r.below(12)
    depth = r.range(1, 9)
    if kind == 0:
        snip = "var f%(k)d = Fiber.new(|| { nil + 1; });\nf%(k)d.call();\n"
    elif kind == 1:
        snip = "fn nest%(k)d(n) { if n == 0 { throw \"deep fiber\"; } var f = Fiber.new(|| nest%(k)d(n - 1)); return f.call(); }\nnest%(k)d(" + str(depth) + ");\n"
    elif kind == 2:
        snip = "fn down%(k)d(n) { if n == 0 { return [][1]; } return down%(k)d(n - 1); }\ndown%(k)d(" + str(depth * 5) + ");\n"
    elif kind == 3:
        snip = "fn tf%(k)d(n) { try { if n == 0 { throw \"x\"; } return tf%(k)d(n - 1); } finally { var_count = var_count + 1; } }\ntf%(k)d(" + str(depth) + ");\n"
    elif kind == 4:
        snip = "var = %(k)d;\n"
    elif kind == 5:
        snip = "import \"" + r.choice(["throws", "broken", "missing"]) + "\" as bad%(k)d;\n"
    elif kind == 6:
        snip = "#[constructor(new)] class Half%(k)d { fn m(self) { return undefined_name_%(k)d; } }\nHalf%(k)d.new().m();\n"
    elif kind == 7:
        snip = "print([1, 2, 3].iter().map(|x| x + nil).collect());\n"
    elif kind == 8:
        snip = "var g%(k)d = Fiber.new(|| { Fiber.yield(1); throw \"later\"; });\ng%(k)d.call();\ng%(k)d.call();\n"
    elif kind == 9:
        snip = "var s%(k)d = Fiber.new(|| { var inner = Fiber.new(|| { Fiber.yield(\"parked\"); }); inner.call(); nil(); });\ns%(k)d.call();\n"
    elif kind == 10:
        snip = "for i in 0..3 { var c%(k)d = || i; if i == 2 { c%(k)d.nope; } }\n"
    else:
        snip = "var notcls%(k)d = 3;\n#[derive(notcls%(k)d)] class Bad%(k)d {}\n"
    steps = [("snip", "var var_count = 0;\nprint(\"start\");\n")]
    for k in range(n):
        steps.append(("snip", snip % {"k": k}))
        if k in (n // 3, (2 * n) // 3):
            steps.append(("snip", PROBE))
    steps.append(("snip", PROBE))
    steps.append(("snip", DEEP_PROBE))
    if r.chance(40):
        steps.append(("reset",))
        steps.append(("snip", PROBE))
        steps.append(("snip", DEEP_PROBE))
    return steps, MODS
