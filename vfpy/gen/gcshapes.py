"""Edge matrix for C01: for every holder kind x target kind a small program that makes a fresh
target reachable ONLY through that edge, drops every other reference, churns allocations (each one
a collection point under the collect-always schedule), then reads the target back and prints it.
No expectation is needed: the program must print the same under every GC schedule and the
monitors (M1 closure audit, M2 poison) must stay silent."""

PRELUDE = '''
#[constructor(new)]
class Junk {}
fn churn() {
    var j = [];
    // nine fresh ranges: whatever was kept alive only by the interpreter's cache of the last eight ranges loses that cover
    for k in 0..9 { var pressure = (300 + k)..(400 + k); }
    for i in 0..6 {
        j.push([i, "s${i}", (i, i)]);
        var o = Junk.new();
        o.f = || i;
    }
    return j.len();
}
class Box {
    #[constructor]
    fn new(self, v) { self.v = v; }
    fn get(self) { return self.v; }
    fn show(self) { return "Box(${self.v})"; }
}
'''

# target kinds: name -> (make expression given a number literal N, readback expression given x)
TARGETS = {
    "vec": ("[%(n)s, \"t%(n)s\", [%(n)s]]", "%(x)s"),
    "tuple": ("(%(n)s, \"t%(n)s\", (%(n)s,))", "%(x)s"),
    "map": ("{\"k\": %(n)s, %(n)s: [%(n)s]}", "%(x)s.get(\"k\") + %(x)s.get(%(n)s)[0]"),
    "instance": ("Box.new([%(n)s])", "%(x)s.show()"),
    "closure": ("mkc(%(n)s)", "%(x)s()"),
    "bound": ("Box.new([%(n)s, 1]).show", "%(x)s()"),
    "boundnative": ("[%(n)s, %(n)s].len", "%(x)s()"),
    "class": ("mkclass(%(n)s)", "%(x)s.id() + %(x)s.new().tag()"),
    "fiber": ("Fiber.new(|| { Fiber.yield([%(n)s]); return [%(n)s, 1]; })", "%(x)s.call()"),
    "susp": ("mksusp(%(n)s)", "%(x)s.call()"),
    "range": ("(1000 + %(n)s)..(1003 + %(n)s)", "%(x)s"),
    "veciter": ("[[%(n)s], [%(n)s, 2]].iter()", "%(x)s.next()"),
    "tupleiter": ("([%(n)s], 2).iter()", "%(x)s.next()"),
    "rangeiter": ("((2000 + %(n)s)..(2005 + %(n)s)).iter()", "%(x)s.next()"),
    "striter": ("(\"q%(n)s\" + \"z\").iter()", "%(x)s.next()"),
    "mapiter": ("[[%(n)s], [2]].iter().map(|v| [v, %(n)s])", "%(x)s.next()"),
    "filteriter": ("[[%(n)s], [2]].iter().filter(|v| v.len() == 1)", "%(x)s.next()"),
    "error": ("TypeError.new([%(n)s, \"ctx\"])", "%(x)s.context"),
    "string": ("\"str\" + \"%(n)s\" + \"x\"", "%(x)s"),
}

TARGET_HELPERS = '''
fn mkc(n) { var cell = [n, "cap"]; return || cell; }
fn mkclass(n) {
    #[constructor(new)]
    class Local {
        #[static] fn id() { return "Local${n}"; }
        fn tag(self) { return [n, "tag"]; }
    }
    return Local;
}
fn mksusp(n) {
    var f = Fiber.new(|a| { var mine = [n, a]; var got = Fiber.yield(0); return [mine, got]; });
    f.call([n]);
    return f;
}
'''

HASHABLE = {"tuple", "range", "class", "string"}


def holders():
    """name -> template with %(mk)s (target expression) and %(rd)s given variable name through
    placeholder %(x)s already substituted by the caller; templates use MK and RD(x) markers."""
    h = {}
    h["global"] = "var g = MK;\nchurn();\nprint(RD(g));\n"
    h["local"] = "fn f() { var t = MK; churn(); print(RD(t)); }\nf();\n"
    h["block_local"] = "{ var pad = 1; { var t = MK; churn(); print(RD(t)); } }\n"
    h["closed_upvalue"] = "fn mk() { var t = MK; return || t; }\nvar h = mk();\nchurn();\nprint(RD(h()));\n"
    h["open_upvalue"] = "fn f() { var t = MK; var g = || t; churn(); print(RD(g())); }\nf();\n"
    h["upvalue_2levels"] = ("fn mk() { var t = MK; fn mid() { return || t; } return mid(); }\nvar h = mk();\nchurn();\n"
                            "print(RD(h()));\n")
    h["upvalue_other_fiber_live"] = ("var fb = Fiber.new(|| { var t = MK; Fiber.yield(|| t); churn(); return 0; });\n"
                                     "var g = fb.call();\nchurn();\nprint(RD(g()));\nfb.call();\nprint(RD(g()));\n")
    h["upvalue_other_fiber_dropped"] = ("fn mk() { var fb = Fiber.new(|| { var t = MK; Fiber.yield(|| t); return 0; }); return fb.call(); }\n"
                                        "var g = mk();\nchurn();\nprint(RD(g()));\nchurn();\nprint(RD(g()));\n")
    h["upvalue_other_fiber_written"] = ("fn mk() { var fb = Fiber.new(|| { var t = 0; Fiber.yield(|v| { t = v; return t; }); return 0; }); return fb.call(); }\n"
                                        "var g = mk();\nchurn();\nprint(RD(g(MK)));\nchurn();\n")
    # several locals of an abandoned, suspended fiber captured in descending / mixed slot order: every
    # open upvalue (list head or spliced behind it) has to keep the fiber's stack alive
    h["upvalue_other_fiber_second_capture"] = (
        "fn mk() { var fb = Fiber.new(|| { var t = MK; var u = [7]; var gu = || u; var gt = || t; Fiber.yield(gt); return gu; }); return fb.call(); }\n"
        "var g = mk();\nchurn();\nprint(RD(g()));\nchurn();\nprint(RD(g()));\n")
    h["upvalue_other_fiber_middle_capture"] = (
        "fn mk() { var fb = Fiber.new(|| { var a = [1]; var t = MK; var z = [3]; var gz = || z; var ga = || a; var gt = || t; "
        "Fiber.yield([gt, ga]); return gz; }); return fb.call(); }\n"
        "var g = mk();\nchurn();\nprint(RD(g[0]()));\nprint(g[1]());\nchurn();\nprint(RD(g[0]()));\n")
    h["upvalue_other_fiber_nested_frames"] = (
        "fn mk() { var fb = Fiber.new(|| { var t = MK; fn inner() { var w = [9]; var gw = || w; Fiber.yield(|| t); return gw; } return inner(); }); return fb.call(); }\n"
        "var g = mk();\nchurn();\nprint(RD(g()));\nchurn();\nprint(RD(g()));\n")
    h["vec_elem"] = "var g = [1, MK, 3];\nchurn();\nprint(RD(g[1]));\n"
    h["vec_pushed"] = "var g = [];\ng.push(MK);\nchurn();\nprint(RD(g[0]));\n"
    h["tuple_elem"] = "var g = (1, MK);\nchurn();\nprint(RD(g[1]));\n"
    h["nested"] = "var g = [[(1, [MK])]];\nchurn();\nprint(RD(g[0][0][1][0]));\n"
    h["map_value"] = "var g = {\"a\": MK};\nchurn();\nprint(RD(g.get(\"a\")));\n"
    h["map_value_inserted"] = "var g = {};\ng.insert(7, MK);\nchurn();\nprint(RD(g.get(7)));\n"
    h["map_key"] = "var g = {};\ng.insert(MK, 1);\nchurn();\nprint(RD(g.keys()[0]));\n"
    h["map_key_literal"] = "var g = {MK: 1};\nchurn();\nfor k in g.keys() { print(RD(k)); }\n"
    h["map_key_in_tuple"] = "var g = {};\ng.insert((1, MK), 1);\nchurn();\nprint(RD(g.keys()[0][1]));\n"
    h["field"] = "var g = Box.new(0);\ng.other = MK;\nchurn();\nprint(RD(g.other));\n"
    h["field_ctor"] = "var g = Box.new(MK);\nchurn();\nprint(RD(g.get()));\n"
    h["method_const"] = ("fn mk() { var t = MK; #[constructor(new)] class K { fn m(self) { return t; } } return K.new(); }\n"
                         "var g = mk();\nchurn();\nprint(RD(g.m()));\n")
    h["static_method"] = ("fn mk() { var t = MK; class K { #[static] fn s() { return t; } } return K; }\n"
                          "var g = mk();\nchurn();\nprint(RD(g.s()));\n")
    h["bound_receiver"] = "var g = Box.new(MK).get;\nchurn();\nprint(RD(g()));\n"
    h["iter_iterable"] = "var g = [MK, 2].iter();\nchurn();\nprint(RD(g.next()));\n"
    h["tuple_iter_iterable"] = "var g = (MK, 2).iter();\nchurn();\nprint(RD(g.next()));\n"
    h["mapiter_field"] = "var g = [1, 2].iter().map(|v| MK);\nchurn();\nprint(RD(g.next()));\nchurn();\nprint(RD(g.next()));\n"
    h["mapiter_func_capture"] = "fn mk() { var t = MK; return [1].iter().map(|v| t); }\nvar g = mk();\nchurn();\nprint(RD(g.next()));\n"
    h["suspended_local"] = ("var fb = Fiber.new(|| { var t = MK; Fiber.yield(1); return t; });\nfb.call();\nchurn();\n"
                            "print(RD(fb.call()));\n")
    h["suspended_nested_frame"] = ("fn inner(t) { Fiber.yield(1); return t; }\nvar fb = Fiber.new(|| { return inner(MK); });\n"
                                   "fb.call();\nchurn();\nprint(RD(fb.call()));\n")
    h["suspended_in_vec"] = ("var fs = [Fiber.new(|| { var t = MK; Fiber.yield(1); return t; })];\nfs[0].call();\nchurn();\n"
                             "print(RD(fs[0].call()));\n")
    h["caller_chain"] = ("var out = [];\nFiber.new(|| { var t = MK; Fiber.new(|| { churn(); return 1; }).call(); out.push(RD(t)); "
                         "return 0; }).call();\nprint(out);\n")
    h["caller_chain_deep"] = ("var out = [];\nFiber.new(|| { var t = MK; Fiber.new(|| { Fiber.new(|| { churn(); return 1; }).call(); "
                              "return 2; }).call(); out.push(RD(t)); return 0; }).call();\nprint(out);\n")
    h["yield_value"] = "var fb = Fiber.new(|| { Fiber.yield(MK); return 0; });\nvar g = fb.call();\nchurn();\nprint(RD(g));\n"
    h["call_argument"] = ("var fb = Fiber.new(|a| { churn(); var b = Fiber.yield(RD(a)); churn(); return RD(b); });\n"
                          "print(fb.call(MK));\nprint(fb.call(MK));\n")
    h["pending_return"] = "fn f() { try { return MK; } finally { churn(); } }\nprint(RD(f()));\n"
    h["pending_return_nested_call"] = "fn g() { return MK; }\nfn f() { try { return g(); } finally { churn(); churn(); } }\nprint(RD(f()));\n"
    h["exception_in_flight"] = "fn f() { try { throw MK; } finally { churn(); } }\ntry { f(); } catch e { print(RD(e)); }\n"
    h["exception_caught"] = "try { throw MK; } catch e { churn(); print(RD(e)); }\n"
    h["exception_through_frames"] = ("fn a() { throw MK; }\nfn b() { a(); }\nfn c() { try { b(); } catch e { churn(); return e; } }\n"
                                     "print(RD(c()));\n")
    h["error_context"] = "var g = nil;\ntry { throw ValueError.new(MK); } catch e { g = e; }\nchurn();\nprint(RD(g.context));\n"
    h["operand_vec"] = "var g = [MK, [churn()], \"a\" + \"b\", MK];\nprint(RD(g[0]));\nprint(RD(g[3]));\n"
    h["operand_tuple"] = "var g = (MK, churn(), (1, 2), MK);\nprint(RD(g[0]));\nprint(RD(g[3]));\n"
    h["operand_map"] = "var g = {1: MK, 2: churn(), 3: [1], 4: MK};\nprint(RD(g.get(1)));\nprint(RD(g.get(4)));\n"
    h["operand_call_args"] = "fn pick(a, b, c, d) { churn(); return [a, d]; }\nvar g = pick(MK, churn(), [1], MK);\nprint(RD(g[0]));\nprint(RD(g[1]));\n"
    h["operand_interpolation"] = "var g = MK;\nvar s = \"<${churn()}|${[1, 2]}|${(3,)}|${churn()}>\";\nprint(s);\nprint(RD(g));\n"
    h["operand_concat"] = "var g = MK;\nvar s = (\"a\" + \"b${churn()}\") + (\"c\" + \"d${[1]}\");\nprint(s);\nprint(RD(g));\n"
    h["native_split"] = "var g = MK;\nvar parts = \"a,b,c,d,e,f,g,h\".split(\",\");\nprint(parts);\nprint(RD(g));\n"
    h["native_items"] = "var g = {1: MK, 2: [2], 3: (3,)};\nvar it = g.items();\nvar ks = g.keys();\nvar vs = g.values();\nprint(it.len() + ks.len() + vs.len());\nprint(RD(g.get(1)));\n"
    h["native_to_bytes"] = "var g = MK;\nvar b = \"héllo wörld\".to_bytes();\nvar c = \"héllo\".to_code_points();\nprint(b.len() + c.len());\nprint(RD(g));\n"
    h["slice_result"] = "var g = [MK, MK, [3]][0..2];\nchurn();\nprint(RD(g[0]));\nprint(RD(g[1]));\n"
    h["tuple_slice_result"] = "var g = (MK, MK, [3])[0..2];\nchurn();\nprint(RD(g[0]));\nprint(RD(g[1]));\n"
    h["for_hidden_iterator"] = "for x in [MK, MK] { churn(); print(RD(x)); }\n"
    h["for_over_map_chain"] = "for x in [1, 2].iter().map(|v| MK) { churn(); print(RD(x)); }\n"
    h["collect_result"] = "var g = [1, 2].iter().map(|v| MK).collect();\nchurn();\nprint(RD(g[1]));\n"
    h["reduce_acc"] = "var g = [1, 2, 3].iter().reduce(|acc, v| { churn(); acc.push(v); return acc; }, [MK]);\nprint(RD(g[0]));\nprint(g.len());\n"
    h["class_under_construction"] = ("var g = MK;\n#[constructor(new)]\nclass Big {\n" +
                                     "".join("    fn m%d(self) { return %d; }\n" % (i, i) for i in range(8)) +
                                     "    #[static] fn s() { return 1; }\n}\nprint(Big.new().m7() + Big.s());\nprint(RD(g));\n")
    h["superclass_local"] = ("fn mk() { var t = MK; class Base { fn get(self) { return t; } } #[derive(Base), constructor(new)] class Sub {} "
                             "return Sub.new(); }\nvar g = mk();\nchurn();\nprint(RD(g.get()));\nprint(g.derives(Object));\n")
    h["superclass_chain"] = ("fn mk() { var t = MK; class A { fn get(self) { return t; } } #[derive(A)] class B {} "
                             "#[derive(B), constructor(new)] class C {} return C.new(); }\nvar g = mk();\nchurn();\n"
                             "print(RD(g.get()));\nprint(g.derives(Object));\nprint(type(g));\n")
    h["super_call"] = ("fn mk() { var t = MK; class A { fn get(self) { return t; } } #[derive(A), constructor(new)] class B { "
                       "fn get(self) { return super.get(); } } return B.new(); }\nvar g = mk();\nchurn();\nprint(RD(g.get()));\n")
    h["instance_class_only"] = ("fn mk() { var t = MK; #[constructor(new)] class K { fn get(self) { return t; } } return K.new(); }\n"
                                "var g = mk();\nchurn();\nprint(RD(g.get()));\nprint(type(g));\n")
    h["metaclass_static"] = ("fn mk() { var t = MK; class K { #[static] fn s() { return t; } } return K; }\nvar g = mk();\nchurn();\n"
                             "print(type(g));\nprint(RD(g.s()));\n")
    h["module_attr"] = "import \"gm_holder\" as m;\nm.held = MK;\nchurn();\nprint(RD(m.held));\n"
    h["module_closure"] = "import \"gm_holder\" as m;\nvar f = m.getter(MK);\nm = nil;\nchurn();\nprint(RD(f()));\n"
    h["import_in_progress"] = "var g = MK;\nimport \"gm_churn\" as c;\nprint(c.done);\nprint(RD(g));\n"
    h["native_arg_during_error"] = "var g = MK;\ntry { \"abc\".find(g, g); } catch e { churn(); print(type(e)); }\nprint(RD(g));\n"
    h["bound_in_field"] = "var g = Box.new(1);\ng.cb = Box.new(MK).get;\nchurn();\nprint(RD(g.cb()));\n"
    h["global_reassigned"] = "var g = MK;\ng = [g];\nchurn();\ng = g[0];\nchurn();\nprint(RD(g));\n"
    h["while_loop_local"] = "var i = 0;\nwhile i < 2 { var t = MK; churn(); print(RD(t)); i += 1; }\n"
    return h


MODULES = [
    ("gm_holder", "var held = nil;\nfn getter(v) { var own = [v]; return || own[0]; }\n"),
    ("gm_churn", "var j = [];\nfor i in 0..8 { j.push([i, \"m${i}\"]); }\nvar done = j.len();\n"),
]


def programs():
    """yield (name, source, modules)"""
    hs = holders()
    n = 0
    for hname, tmpl in sorted(hs.items()):
        for tname, (mk, rd) in sorted(TARGETS.items()):
            if "map_key" in hname and tname not in HASHABLE:
                continue
            n += 1
            num = str(100 + (n % 50))
            body = tmpl
            # substitute RD(<expr>) with the readback expression (balanced parentheses)
            body = _subst_rd(body, rd, num)
            body = body.replace("MK", mk % {"n": num})
            yield ("%s/%s" % (hname, tname), PRELUDE + TARGET_HELPERS + body, MODULES)
    for item in identity_programs():
        yield item


def identity_programs():
    """what a program can observe about object identity must not depend on when collections happen: the same range
    written twice (ranges are kept identical by a small cache, evicted in creation order), used as a map key, compared,
    with few or many other ranges and plenty of allocation in between; strings built twice; a module imported twice"""
    out = []
    for between in (0, 1, 3, 6, 7, 8, 9, 12):
        for alloc in ("churn(); churn();", "var log = []; for n in 0..300 { log = [\"entry\", n, (n, n)]; }", ""):
            L = ["var sched = {};", "sched.insert(9..12, \"standup\");", "sched.insert(13..17, \"deep work\");", "var morning = 9..12;", alloc]
            for k in range(between):
                L.append("var r%d = %d..%d; %s" % (k, 100 + k, 200 + k, "churn();" if k % 3 == 0 else ""))
            L += ["print(sched.get(9..12));", "print(sched.has_key(13..17));", "print(morning == 9..12);", "print((9..12) == (9..12));",
                  alloc, "print([sched.get(morning), sched.len(), sched.has_key(9..12)]);",
                  "var s1 = \"ab\" + \"cd\"; " + alloc + " var s2 = \"a\" + \"bcd\"; print(s1 == s2); var sm = {s1: 1}; print(sm.get(s2));",
                  "import \"gm_holder\" as h1; " + alloc + " import \"gm_holder\" as h2; print(h1 == h2);",
                  "var t1 = (1, [2]); var t2 = (1, [2]); print([t1 == t2, {(1, 2): 3}.get((1, 2))]);"]
            out.append(("identity/range-%d-%d" % (between, len(alloc)), PRELUDE + "\n".join(L) + "\n", MODULES))
    return out


def _subst_rd(body, rd, num):
    out = []
    i = 0
    while True:
        j = body.find("RD(", i)
        if j < 0:
            out.append(body[i:])
            break
        out.append(body[i:j])
        depth = 0
        k = j + 2
        while True:
            c = body[k]
            if c == "(":
                depth += 1
            elif c == ")":
                depth -= 1
                if depth == 0:
                    break
            k += 1
        inner = body[j + 3:k]
        out.append("(" + (rd % {"x": "(" + inner + ")", "n": num}) + ")")
        i = k + 1
    return "".join(out)


def deep_programs():
    """structures whose far end is reachable only through a chain of several hundred to a few thousand references of one
    kind (tuple cells, vector cells, instance fields, map values, closures capturing the previous closure, bound
    methods of the previous instance, a stack of suspended fibers each holding the next): built iteratively, kept while
    other allocation goes on, then walked to the far end by a loop. The tracer must reach the far end however deep."""
    out = []
    for n in (300, 1100, 2600):
        out.append(("deep/tuple/%d" % n, "var head = nil; var i = 0;\nwhile i < %d { head = (i, head); i += 1; }\nvar junk = []; for k in 0..40 { junk = [k, [junk.len()]]; }\n"
                    "var c = head; var sum = 0; var len = 0; while c != nil { sum += c[0]; len += 1; c = c[1]; }\nprint(len); print(sum);\n" % n))
        out.append(("deep/vec/%d" % n, "var head = []; var i = 0;\nwhile i < %d { head = [i, head, \"s${i}\"]; i += 1; }\nvar junk = []; for k in 0..40 { junk = [k, [junk.len()]]; }\n"
                    "var c = head; var sum = 0; var len = 0; var last = nil; while c.len() > 0 { sum += c[0]; last = c[2]; len += 1; c = c[1]; }\nprint(len); print(sum); print(last);\n" % n))
        out.append(("deep/instance/%d" % n, "#[constructor(new)] class Cell { fn val(self) { return self.v; } }\nvar head = nil; var i = 0;\n"
                    "while i < %d { var c = Cell.new(); c.v = [i]; c.next = head; head = c; i += 1; }\nvar junk = []; for k in 0..40 { junk = [k, [junk.len()]]; }\n"
                    "var c = head; var sum = 0; var len = 0; while c != nil { sum += c.val()[0]; len += 1; c = c.next; }\nprint(len); print(sum);\n" % n))
        out.append(("deep/map/%d" % n, "var head = {}; var i = 0;\nwhile i < %d { var m = {}; m.insert(\"v\", (i,)); m.insert(\"next\", head); head = m; i += 1; }\nvar junk = []; for k in 0..40 { junk = [k, [junk.len()]]; }\n"
                    "var c = head; var sum = 0; var len = 0; while c.has_key(\"v\") { sum += c.get(\"v\")[0]; len += 1; c = c.get(\"next\"); }\nprint(len); print(sum);\n" % n))
        out.append(("deep/closure/%d" % n, "fn wrap(prev, i) { var mine = [i]; return |k| { if k == 0 { return mine; } return prev; }; }\nvar head = nil; var i = 0;\n"
                    "while i < %d { head = wrap(head, i); i += 1; }\nvar junk = []; for k in 0..40 { junk = [k, [junk.len()]]; }\n"
                    "var c = head; var sum = 0; var len = 0; while c != nil { sum += c(0)[0]; len += 1; c = c(1); }\nprint(len); print(sum);\n" % n))
        out.append(("deep/bound/%d" % n, "#[constructor(new)] class B { fn get(self) { return self; } }\nvar head = nil; var i = 0;\n"
                    "while i < %d { var b = B.new(); b.v = \"v${i}\"; b.prev = head; head = b.get; i += 1; }\nvar junk = []; for k in 0..40 { junk = [k, [junk.len()]]; }\n"
                    "var c = head; var len = 0; var last = nil; while c != nil { var o = c(); last = o.v; len += 1; c = o.prev; }\nprint(len); print(last);\n" % n))
    for n in (40, 120, 300):
        out.append(("deep/fiber/%d" % n, "var head = nil; var i = 0;\nwhile i < %d { var prev = head; var tag = [i]; var f = Fiber.new(|| { var got = Fiber.yield(tag); return [got, prev]; }); f.call(); head = f; i += 1; }\n"
                    "var junk = []; for k in 0..40 { junk = [k, [junk.len()]]; }\nvar c = head; var len = 0; while c != nil { var r = c.call(len); len += 1; c = r[1]; }\nprint(len);\n" % n))
    return [(name, src, []) for name, src in out]
