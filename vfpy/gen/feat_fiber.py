"""fiber generation for C09: a handful of fibers whose bodies yield from loops, nested frames and
try blocks, and a seeded script of call / yield / return / throw steps that decides the
interleaving; every call is wrapped so that misuse (finished, re-entered, wrong argument count,
yield at top level) is observed as a catchable error that leaves every fiber untouched."""


def s_fiber(g, depth):
    r = g.r
    if getattr(g, "try_ctx", [[]])[-1] or g.fdepth > 0 or getattr(g, "fiber_done", 0) >= 2:
        return g.s_print(depth)
    g.fiber_done = getattr(g, "fiber_done", 0) + 1
    tag = g.counter
    n = r.range(1, 4)
    names = [g.fresh("fb") for _ in range(n)]
    arity = [r.range(0, 1) for _ in range(n)]
    L = []
    helper = g.fresh("yh")
    L.append("fn %s(x) { var r = Fiber.yield([\"h\", x]); return [x, r]; }" % helper)
    L.append("var log%d = [];" % tag)
    for k, (nm, ar) in enumerate(zip(names, arity)):
        L.append("var %s = nil;" % nm)
    for k, (nm, ar) in enumerate(zip(names, arity)):
        body = ["print(\"%s start\");" % nm, "var acc = [%s];" % ("a" if ar else "\"noarg\"")]
        loops = r.range(0, 3)
        steps = []
        if loops:
            steps.append("for i in 0..%d {" % loops)
            inner = []
            c = r.below(100)
            if c < 40:
                inner.append("var got = Fiber.yield([%d, i]);" % k)
            elif c < 60:
                inner.append("var got = %s(i);" % helper)
            elif c < 75:
                inner.append("var got = Fiber.yield();")
            else:
                inner.append("var got = nil;")
                inner.append("try { got = Fiber.yield(i); if got == 2 { throw \"two\"; } } catch e { print(\"%s caught ${e}\"); }" % nm)
            inner.append("acc.push(got);")
            if k + 1 < n and r.chance(45):
                other = names[r.range(k + 1, n - 1)] if k + 1 <= n - 1 else None
                if other:
                    inner.append("try { acc.push(%s.call(%s)); } catch e { print(type(e)); print(e.context); }" % (
                        other, "i" if arity[names.index(other)] else ("" if r.chance(80) else "i")))
            if r.chance(15):
                inner.append("try { %s.call(0); } catch e { print(\"reenter: ${e.context}\"); }" % nm)
            if r.chance(15) and k > 0:
                inner.append("try { %s.call(0); } catch e { print(\"call caller: ${e.context}\"); }" % names[0])
            steps += ["    " + l for l in inner]
            steps.append("}")
        body += steps
        if r.chance(20):
            body.append("if acc.len() > 2 { throw \"%s failed\"; }" % nm if False else "print(\"%s loop done\");" % nm)
        if r.chance(30):
            body.append("log%d.push(|| acc);" % tag)
        body.append(r.choice(["return acc;", "return [\"%s done\", acc.len()];" % nm, "acc.push(\"end\");"]))
        L.append("%s = Fiber.new(|%s| {" % (nm, "a" if ar else ""))
        L += g.ind(body)
        L.append("});")
        g.declare(nm, "fiber", const=True)
    # the call script
    for _ in range(r.range(3, 10)):
        nm = r.choice(names)
        ar = arity[names.index(nm)]
        c = r.below(100)
        if c < 70:
            arg = r.choice(["1", "2", "\"v\"", "[7]", "nil"])
            args = arg if (ar or r.chance(60)) else ""
            if r.chance(10):
                args = "1, 2"
        else:
            args = ""
        L.append("try { print(%s.call(%s)); } catch e { print(type(e)); print(e.context); }" % (nm, args))
        if r.chance(30):
            L.append("print(%s.has_finished());" % nm)
    if r.chance(25):
        L.append("try { Fiber.yield(1); } catch e { print(e.context); }")
    if r.chance(20):
        L.append("try { Fiber.new(|a, b| 1); } catch e { print(type(e)); print(e.context); }")
        L.append("try { Fiber.new(5); } catch e { print(type(e)); }")
    L.append("for f in log%d { print(f()); }" % tag)
    if "exc.yield_in_finally" not in g.p.avoid and r.chance(40):
        L += yield_in_finally(g)
    if r.chance(45):
        L += abandoned_accessors(g)
    return L


def abandoned_accessors(g):
    """a fiber hands out accessors to its locals (created in a random order, so captures happen in ascending, descending
    and mixed slot order; some used only locally) and is then abandoned while suspended - or kept and resumed later;
    other fibers come and go in between; the locals must stay what the fiber left them"""
    r = g.r
    tag = g.fresh("ab")
    m = r.range(2, 4)
    order = r.shuffle(list(range(m)))
    escape = [r.chance(60) for _ in range(m)]
    if not any(escape):
        escape[order[-1]] = True
    keep = r.chance(35)
    nested = r.chance(30)
    body = ["var v%d = %s;" % (i, r.choice(["%d" % (100 * (i + 1)), "[%d]" % i, "\"s%d\"" % i])) for i in range(m)]
    acc = []
    for i in order:
        if escape[i]:
            acc.append("%s_acc.push(|| v%d);" % (tag, i))
            if r.chance(50):
                acc.append("%s_acc.push(|| { v%d = [v%d]; return v%d; });" % (tag, i, i, i))
        else:
            acc.append("var peek%d = || v%d;" % (i, i))
    if nested:
        body += ["fn inner() {", "    var w = \"inner\";", "    var pw = || w;"] + ["    " + a for a in acc] + [
            "    Fiber.yield(pw());", "    return w;", "}", "inner();"]
    else:
        body += acc + ["Fiber.yield(v0);"]
    body.append("print(\"%s resumed\");" % tag)
    body.append("return [%s];" % ", ".join("v%d" % i for i in range(m)))
    L = ["var %s_acc = [];" % tag, "var %s_kept = nil;" % tag, "fn %s_start() {" % tag, "    var worker = Fiber.new(|| {"]
    L += ["        " + b for b in body]
    L += ["    });", "    print(worker.call());"]
    if keep:
        L.append("    %s_kept = worker;" % tag)
    L += ["}", "%s_start();" % tag, "for f in %s_acc { print(f()); }" % tag,
          "fn %s_churn(t) { var f = Fiber.new(|x| { var a = [x, 1]; var b = [x, 2]; var c = [x, 3]; Fiber.yield([a, b, c]); }); return f.call(t); }" % tag,
          "for i in 0..%d { %s_churn(i); }" % (r.range(3, 12), tag), "for f in %s_acc { print(f()); }" % tag]
    if keep:
        L += ["print(%s_kept.call());" % tag, "for f in %s_acc { print(f()); }" % tag]
    return L


def yield_in_finally(g):
    """a fiber suspended inside a finally block while an exception (or a return) is pending; the
    resumer does nothing exceptional in between"""
    r = g.r
    nm = g.fresh("ffin")
    pending = r.choice(["throw", "return", "none"])
    ny = r.range(1, 2)
    body = ["try {", "    try {", "        print(\"%s body\");" % nm]
    if pending == "throw":
        body.append("        throw %s;" % r.choice(["\"E\"", "[1, 2]", "42"]))
    elif pending == "return":
        body.append("        return \"early\";")
    body.append("    } finally {")
    body.append("        print(\"%s cleanup\");" % nm)
    for k in range(ny):
        body.append("        print(Fiber.yield(\"mid%d\"));" % k)
    body.append("        print(\"%s resumed\");" % nm)
    body.append("    }")
    body.append("    print(\"%s after inner\");" % nm)
    body.append("} catch e {")
    body.append("    print(\"%s caught ${e}\");" % nm)
    body.append("}")
    body.append("return \"%s end\";" % nm)
    L = ["var %s = Fiber.new(|| {" % nm] + g.ind(body) + ["});"]
    for k in range(ny + 1):
        L.append("print(%s.call(%s));" % (nm, "" if k == 0 else r.choice(["\"in%d\"" % k, ""])))
    L.append("print(%s.has_finished());" % nm)
    return L
