"""fiber generation for C09: a handful of fibers whose bodies yield from loops, nested frames and
try blocks, and a seeded script of call / yield / return / throw steps that decides the
interleaving; every call is wrapped so that misuse (finished, re-entered, wrong argument count,
yield at top level) is observed as a catchable error that leaves every fiber untouched."""


def s_fiber(g, depth):
    r = g.r
    if getattr(g, "try_ctx", [[]])[-1] or g.fdepth > 0 or getattr(g, "fiber_done", 0) >= 2:
        return g.s_print(depth)
    g.fiber_done = getattr(g, "fiber_done", 0) + 1
    tag = g.counter
    n = r.range(1, 4)
    names = [g.fresh("fb") for _ in range(n)]
    arity = [r.range(0, 1) for _ in range(n)]
    L = []
    helper = g.fresh("yh")
    L.append("fn %s(x) { var r = Fiber.yield([\"h\", x]); return [x, r]; }" % helper)
    L.append("var log%d = [];" % tag)
    for k, (nm, ar) in enumerate(zip(names, arity)):
        L.append("var %s = nil;" % nm)
    for k, (nm, ar) in enumerate(zip(names, arity)):
        body = ["print(\"%s start\");" % nm, "var acc = [%s];" % ("a" if ar else "\"noarg\"")]
        loops = r.range(0, 3)
        steps = []
        if loops:
            steps.append("for i in 0..%d {" % loops)
            inner = []
            c = r.below(100)
            if c < 40:
                inner.append("var got = Fiber.yield([%d, i]);" % k)
            elif c < 60:
                inner.append("var got = %s(i);" % helper)
            elif c < 75:
                inner.append("var got = Fiber.yield();")
            else:
                inner.append("var got = nil;")
                inner.append("try { got = Fiber.yield(i); if got == 2 { throw \"two\"; } } catch e { print(\"%s caught ${e}\"); }" % nm)
            inner.append("acc.push(got);")
            if k + 1 < n and r.chance(45):
                other = names[r.range(k + 1, n - 1)] if k + 1 <= n - 1 else None
                if other:
                    inner.append("try { acc.push(%s.call(%s)); } catch e { print(type(e)); print(e.context); }" % (
                        other, "i" if arity[names.index(other)] else ("" if r.chance(80) else "i")))
            if r.chance(15):
                inner.append("try { %s.call(0); } catch e { print(\"reenter: ${e.context}\"); }" % nm)
            if r.chance(15) and k > 0:
                inner.append("try { %s.call(0); } catch e { print(\"call caller: ${e.context}\"); }" % names[0])
            steps += ["    " + l for l in inner]
            steps.append("}")
        body += steps
        if r.chance(20):
            body.append("if acc.len() > 2 { throw \"%s failed\"; }" % nm if False else "print(\"%s loop done\");" % nm)
        if r.chance(30):
            body.append("log%d.push(|| acc);" % tag)
        body.append(r.choice(["return acc;", "return [\"%s done\", acc.len()];" % nm, "acc.push(\"end\");"]))
        L.append("%s = Fiber.new(|%s| {" % (nm, "a" if ar else ""))
        L += g.ind(body)
        L.append("});")
        g.declare(nm, "fiber", const=True)
    # the call script
    for _ in range(r.range(3, 10)):
        nm = r.choice(names)
        ar = arity[names.index(nm)]
        c = r.below(100)
        if c < 70:
            arg = r.choice(["1", "2", "\"v\"", "[7]", "nil"])
            args = arg if (ar or r.chance(60)) else ""
            if r.chance(10):
                args = "1, 2"
        else:
            args = ""
        L.append("try { print(%s.call(%s)); } catch e { print(type(e)); print(e.context); }" % (nm, args))
        if r.chance(30):
            L.append("print(%s.has_finished());" % nm)
    if r.chance(25):
        L.append("try { Fiber.yield(1); } catch e { print(e.context); }")
    if r.chance(20):
        L.append("try { Fiber.new(|a, b| 1); } catch e { print(type(e)); print(e.context); }")
        L.append("try { Fiber.new(5); } catch e { print(type(e)); }")
    L.append("for f in log%d { print(f()); }" % tag)
    if "exc.yield_in_finally" not in g.p.avoid and r.chance(40):
        L += yield_in_finally(g)
    if r.chance(45):
        L += abandoned_accessors(g)
    return L


def abandoned_accessors(g):
    """a fiber hands out accessors to its locals (created in a random order, so captures happen in ascending, descending
    and mixed slot order; some used only locally) and is then abandoned while suspended - or kept and resumed later;
    other fibers come and go in between; the locals must stay what the fiber left them"""
    r = g.r
    tag = g.fresh("ab")
    m = r.range(2, 4)
    order = r.shuffle(list(range(m)))
    escape = [r.chance(60) for _ in range(m)]
    if not any(escape):
        escape[order[-1]] = True
    keep = r.chance(35)
    nested = r.chance(30)
    body = ["var v%d = %s;" % (i, r.choice(["%d" % (100 * (i + 1)), "[%d]" % i, "\"s%d\"" % i])) for i in range(m)]
    acc = []
    for i in order:
        if escape[i]:
            acc.append("%s_acc.push(|| v%d);" % (tag, i))
            if r.chance(50):
                acc.append("%s_acc.push(|| { v%d = [v%d]; return v%d; });" % (tag, i, i, i))
        else:
            acc.append("var peek%d = || v%d;" % (i, i))
    if nested:
        body += ["fn inner() {", "    var w = \"inner\";", "    var pw = || w;"] + ["    " + a for a in acc] + [
            "    Fiber.yield(pw());", "    return w;", "}", "inner();"]
    else:
        body += acc + ["Fiber.yield(v0);"]
    body.append("print(\"%s resumed\");" % tag)
    body.append("return [%s];" % ", ".join("v%d" % i for i in range(m)))
    L = ["var %s_acc = [];" % tag, "var %s_kept = nil;" % tag, "fn %s_start() {" % tag, "    var worker = Fiber.new(|| {"]
    L += ["        " + b for b in body]
    L += ["    });", "    print(worker.call());"]
    if keep:
        L.append("    %s_kept = worker;" % tag)
    L += ["}", "%s_start();" % tag, "for f in %s_acc { print(f()); }" % tag,
          "fn %s_churn(t) { var f = Fiber.new(|x| { var a = [x, 1]; var b = [x, 2]; var c = [x, 3]; Fiber.yield([a, b, c]); }); return f.call(t); }" % tag,
          "for i in 0..%d { %s_churn(i); }" % (r.range(3, 12), tag), "for f in %s_acc { print(f()); }" % tag]
    if keep:
        L += ["print(%s_kept.call());" % tag, "for f in %s_acc { print(f()); }" % tag]
    return L


def yield_in_finally(g):
    """a fiber suspended inside a finally block while an exception (or a return) is pending; the
    resumer does nothing exceptional in between"""
    r = g.r
    nm = g.fresh("ffin")
    pending = r.choice(["throw", "return", "none"])
    ny = r.range(1, 2)
    body = ["try {", "    try {", "        print(\"%s body\");" % nm]
    if pending == "throw":
        body.append("        throw %s;" % r.choice(["\"E\"", "[1, 2]", "42"]))
    elif pending == "return":
        body.append("        return \"early\";")
    body.append("    } finally {")
    body.append("        print(\"%s cleanup\");" % nm)
    for k in range(ny):
        body.append("        print(Fiber.yield(\"mid%d\"));" % k)
    body.append("        print(\"%s resumed\");" % nm)
    body.append("    }")
    body.append("    print(\"%s after inner\");" % nm)
    body.append("} catch e {")
    body.append("    print(\"%s caught ${e}\");" % nm)
    body.append("}")
    body.append("return \"%s end\";" % nm)
    L = ["var %s = Fiber.new(|| {" % nm] + g.ind(body) + ["});"]
    for k in range(ny + 1):
        L.append("print(%s.call(%s));" % (nm, "" if k == 0 else r.choice(["\"in%d\"" % k, ""])))
    L.append("print(%s.has_finished());" % nm)
    return L


def xmod_fiber_program(rng):
    """fibers whose bodies come from another module: after every call / yield / finish that hands control back, the
    caller's next statement reads, writes, declares or captures a global of ITS OWN module (both modules have globals of
    the same names); the fiber's body does the same on its side after every resume"""
    r = rng
    lib = ["var label = \"lib\";", "var count = 100;", "var step = 10;",
           "fn make_counter() { return Fiber.new(|start| { var cur = start; while true { count = count + step; var got = Fiber.yield([label, count, cur]); if got != nil { cur = got; } } }); }",
           "fn make_once() { return Fiber.new(|| { count = count + 1; return [label, count]; }); }",
           "fn make_relay(inner) { return Fiber.new(|a| { var x = inner.call(a); count = count + 1000; var y = Fiber.yield([label, x]); return [label, count, y]; }); }",
           "var shared = make_counter();", "fn state() { return [label, count]; }"]
    M = ["import \"fiblib\" as fiblib;", "var label = \"main\";", "var count = 0;", "var step = 1;",
         "var fmain = Fiber.new(|a| { count = count + step; var got = Fiber.yield([label, count, a]); count = count + step; return [label, count, got]; });",
         "var gens = [fiblib.make_counter(), fiblib.make_once(), fiblib.shared, fmain];",
         "var relay = fiblib.make_relay(Fiber.new(|a| { count = count + 5; return [label, count, a]; }));"]
    after = ["print([label, count]);", "count = count + step; print(count);", "var d%(i)d = label + \"!\"; print(d%(i)d);",
             "fn h%(i)d() { return [label, count]; } print(h%(i)d());", "var cl%(i)d = || label; print(cl%(i)d());",
             "step = step + 1; print([step, fiblib.step]);", "print(fiblib.state());", "label = \"main\" + String.from(%(i)d); print(label);"]
    for i in range(r.range(4, 12)):
        k = r.below(6)
        arg = r.choice(["1", "nil", "\"a\"", ""])
        if k <= 2:
            g = r.below(4)
            M.append("try { print(gens[%d].call(%s)); } catch e { print(type(e)); print(e.context); }" % (g, arg if arg else ""))
        elif k == 3:
            M.append("try { print(relay.call(%s)); } catch e { print(type(e)); print(e.context); }" % (arg if arg else "0"))
        elif k == 4:
            M.append("print(fiblib.make_once().call());")
        else:
            M.append("print(gens[0].has_finished());")
        M.append(r.choice(after) % {"i": i})
    M.append("print([label, count, step]); print(fiblib.state());")
    return "\n".join(M) + "\n", [("fiblib", "\n".join(lib) + "\n")]


def pending_return_program(rng):
    """fibers suspended inside a finally block while their own `return` (or nothing, or an exception) is pending, with
    other fibers and the main script returning through their own finally blocks in between: each fiber's pending
    return value and resume point are its own"""
    r = rng
    nf = r.range(2, 4)
    L = ["fn tidy(tag) { try { return \"tidy ${tag}\"; } finally { print(\"tidy finally ${tag}\"); } }",
         "fn plain(tag) { try { print(\"plain try ${tag}\"); } finally { print(\"plain finally ${tag}\"); } return tag; }",
         "fn thrower(tag) { try { try { throw \"boom ${tag}\"; } finally { print(\"thrower finally ${tag}\"); } } catch e { return e; } return \"no\"; }"]
    steps_total = 0
    for k in range(nf):
        yields_in_try = r.range(0, 2)
        yields_in_finally = r.range(1, 3)
        mode = r.choice(["return", "return", "return", "fall", "throw"])
        body = ["var acc = [first];", "try {"]
        for y in range(yields_in_try):
            body.append("    acc.push(Fiber.yield(\"w%d try %d\"));" % (k, y))
        if mode == "return":
            body.append("    return [\"w%d returned\", acc];" % k)
        elif mode == "throw":
            body.append("    throw \"w%d threw\";" % k)
        else:
            body.append("    acc.push(\"fell\");")
        body.append("} finally {")
        for y in range(yields_in_finally):
            body.append("    acc.push(Fiber.yield(\"w%d finally %d\"));" % (k, y))
        if r.chance(40):
            body.append("    print(tidy(\"in w%d\"));" % k) if False else body.append("    print(\"w%d finally done ${acc}\");" % k)
        else:
            body.append("    print(\"w%d finally done\");" % k)
        body.append("}")
        body.append("print(\"w%d after the try statement\");" % k)
        body.append("return [\"w%d fell out\", acc];" % k)
        L.append("fn work%d(first) {" % k)
        L += ["    " + b for b in body]
        L.append("}")
        if r.chance(50):
            L.append("var f%d = Fiber.new(|x| work%d(x));" % (k, k))
        else:
            L.append("var f%d = Fiber.new(|x| { var got = work%d(x); return [\"outer\", got]; });" % (k, k))
        steps_total += yields_in_try + yields_in_finally + 1
    # the schedule: random fiber each step, unrelated finally traffic in between
    for s in range(steps_total + nf + 2):
        k = r.below(nf)
        L.append("try { if !f%d.has_finished() { print(f%d.call(%d)); } else { print(\"f%d done\"); } } catch e { print(\"caught from f%d: ${e}\"); }" % (k, k, s, k, k))
        c = r.below(100)
        if c < 30:
            L.append("print(tidy(\"m%d\"));" % s)
        elif c < 45:
            L.append("print(plain(\"m%d\"));" % s)
        elif c < 60:
            L.append("print(thrower(\"m%d\"));" % s)
        elif c < 70:
            L.append("var g%d = Fiber.new(|| tidy(\"g%d\")); print(g%d.call());" % (s, s, s))
    for k in range(nf):
        L.append("print(f%d.has_finished());" % k)
    return "\n".join(L) + "\n"
