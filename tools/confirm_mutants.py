#!/usr/bin/env python3
"""Confirm sub-agent mutants in a scratch worktree: patch applies to /repo HEAD, builds, the 546
baseline tests still pass, and the demo (demo.yl + expected.txt) passes without and fails with it.
Writes /tmp/mutout/<id>/<X>/confirm.json. usage: confirm_mutants.py [C03/A ...]"""
import json, os, subprocess, sys, glob, shutil

ROOT = os.environ.get("MUTROOT", "/tmp/mutout")
WT = os.environ.get("CONFIRM_WT", "/tmp/wt/confirm")
ENV = dict(os.environ, CARGO_NET_OFFLINE="true")

def sh(cmd, cwd=None, timeout=1800):
    p = subprocess.run(cmd, shell=True, cwd=cwd, env=ENV, stdout=subprocess.PIPE, stderr=subprocess.PIPE, timeout=timeout)
    return p.returncode, p.stdout.decode(errors="replace"), p.stderr.decode(errors="replace")

def ensure_wt():
    if not os.path.isdir(WT):
        sh("git -C /repo worktree add -q --detach %s HEAD" % WT)
        shutil.copy("/repo/Cargo.lock", WT)
    sh("git reset -q --hard; git checkout -q --detach $(git -C /repo rev-parse HEAD) && git reset -q --hard && git clean -fdq -e target -e Cargo.lock", cwd=WT)

def run_demo(demo_dir, mode):
    flag = "--release" if mode == "release" else ""
    rc, out, err = sh("cargo run --offline -q %s -p yarel-cli --manifest-path %s/Cargo.toml -- demo.yl" % (flag, WT), cwd=demo_dir, timeout=600)
    return rc, out, err

def run_rs_demo(demo_dir, mode):
    """demo.rs = a Rust integration test against the public API: passes on the unchanged tree, fails with the change"""
    flag = "--release" if mode == "release" else ""
    src = open(demo_dir + "/demo.rs").read()
    feat = "--features verif_hooks" if "verif" in src else ""
    if "fn main" in src:
        # a small program using the public API: run as a cargo example and compare its output with expected.txt
        import re
        os.makedirs(WT + "/yarel/examples", exist_ok=True)
        shutil.copy(demo_dir + "/demo.rs", WT + "/yarel/examples/verif_demo.rs")
        args = ""
        if "env::args" in src and os.path.exists(demo_dir + "/demo.yl"):
            ns = re.findall(r"^N=(\d+)", open(demo_dir + "/expected.txt").read(), re.M)
            args = demo_dir + "/demo.yl " + " ".join(ns)
        rc, out, err = sh("cargo run --offline -q %s %s -p yarel --example verif_demo -- %s" % (flag, feat, args), cwd=WT, timeout=1800)
        os.remove(WT + "/yarel/examples/verif_demo.rs")
        exp = norm(open(demo_dir + "/expected.txt").read())
        ok = norm(out) == exp or norm(out + err) == exp
        return (0 if ok else 1), out + err, ""
    shutil.copy(demo_dir + "/demo.rs", WT + "/yarel/tests/verif_demo.rs")
    rc, out, err = sh("cargo test --offline -q %s %s -p yarel --test verif_demo 2>&1 | tail -30" % (flag, feat), cwd=WT, timeout=1800)
    os.remove(WT + "/yarel/tests/verif_demo.rs")
    ok = "test result: ok" in out
    return (0 if ok else 1), out, ""

def norm(s):
    import re
    s = re.sub(r"0x[0-9a-f]+", "0xADDR", s)
    # some demonstrations end their expected file with a line recording the exit code
    s = "\n".join(l for l in s.split("\n") if not re.match(r"^\(?exit( code)?[ =]\d+\)?$", l.strip()))
    return s.strip()

def main():
    targets = sys.argv[1:] or sorted(os.path.relpath(p, ROOT) for p in glob.glob(ROOT + "/C*/[AB]") if os.path.exists(p + "/patch.diff"))
    for t in targets:
        d = ROOT + "/" + t
        outp = d + "/confirm.json"
        pf = d + "/patch.manual.diff" if os.path.exists(d + "/patch.manual.diff") else d + "/patch.diff"
        if os.path.exists(outp):
            continue
        res = {"id": t}
        ensure_wt()
        rc, o, e = sh("git apply --check %s || patch -p1 -F3 --dry-run -s < %s" % (pf, pf), cwd=WT)
        res["applies"] = rc == 0
        if rc != 0:
            res["apply_err"] = e[-500:]
            json.dump(res, open(outp, "w"), indent=1); print(t, res); continue
        rs_demo = os.path.exists(d + "/demo.rs")
        has_demo = os.path.exists(d + "/demo.yl") and os.path.exists(d + "/expected.txt") and not rs_demo
        rs_base = {}
        if rs_demo:
            for mode in ("release",):
                rs_base[mode] = run_rs_demo(d, mode)
        base = {}
        if has_demo:
            for mode in ("dev", "release"):
                base[mode] = run_demo(d, mode)
        sh("git apply %s || patch -p1 -F3 -s < %s; find . -name '*.orig' -not -path './target/*' -delete" % (pf, pf), cwd=WT)
        res["head"] = sh("git rev-parse --short HEAD", cwd=WT)[1].strip()
        sh("git diff > %s/patch.rebased.diff" % d, cwd=WT)
        rc, o, e = sh("cargo build --offline --workspace && cargo build --offline --workspace --release", cwd=WT)
        res["builds"] = rc == 0
        if rc != 0:
            res["build_err"] = e[-800:]
        rc, o, e = sh("cargo nextest run --workspace --no-fail-fast --test-threads " + os.environ.get("NT","8") + " --offline 2>&1 | tail -4", cwd=WT)
        res["tests"] = [l for l in o.splitlines() if "Summary" in l or "FAIL" in l]
        res["tests_ok"] = any(("546 passed, 1 failed" in l) or ("546 passed (" in l and "1 failed" in l) for l in o.splitlines()) and "number_long_decimal" in o
        if has_demo:
            exp = norm(open(d + "/expected.txt").read())
            res["demo"] = {}
            for mode in ("dev", "release"):
                mut = run_demo(d, mode)
                b = base[mode]
                def matches(r):
                    return norm(r[1]) == exp or norm(r[1] + r[2]) == exp or norm(r[2] + r[1]) == exp
                res["demo"][mode] = {"base_matches_expected": matches(b), "mut_matches_expected": matches(mut),
                                     "base_rc": b[0], "mut_rc": mut[0], "mut_out": (mut[1] + mut[2])[-400:]}
            res["demo_ok"] = any(v["base_matches_expected"] and not v["mut_matches_expected"] for v in res["demo"].values())
        elif rs_demo:
            res["demo"] = {}
            for mode in ("release",):
                mut = run_rs_demo(d, mode)
                res["demo"][mode] = {"kind": "rust integration test", "base_passes": rs_base[mode][0] == 0,
                                     "mut_passes": mut[0] == 0, "mut_out": mut[1][-600:]}
            res["demo_ok"] = any(v["base_passes"] and not v["mut_passes"] for v in res["demo"].values())
        else:
            res["demo_ok"] = None
        sh("git reset -q --hard && git clean -fdq -e target -e Cargo.lock", cwd=WT)
        json.dump(res, open(outp, "w"), indent=1)
        print(t, {k: res.get(k) for k in ("applies", "builds", "tests_ok", "demo_ok")}, flush=True)

main()
