#!/usr/bin/env python3
"""Writes /verif/MANIFEST.json from the table below (kept here so the manifest stays valid and consistent)."""
import json, os, subprocess

BASELINE = ("cd /repo && cargo nextest run --workspace --no-fail-fast --test-threads 8 --offline "
            "|| cargo test --workspace --no-fail-fast --offline")

CHECKS = {
 "C01": dict(technique="runtime monitoring: complete-edge heap closure audit at every sweep + quarantine/poison on every managed dereference (hooks), AddressSanitizer on a stress-GC build, output differential across GC schedules",
             text="Executions of an edge matrix (holder kind x target kind), the repository's scripts and generated programs under collect-always, never-collect and seeded schedules; the audit evaluates 'everything reachable is marked' on the live heap at each sweep, the poison flags every use of a reclaimed object, ASan watches the unhooked stress build; plus chains of 300-2600 references of one kind walked by a loop, and snippet histories whose failed runs leave closures over variables of every discarded frame and fiber. Exploration: holds on the executions and edge kinds listed in the evidence.",
             note="trusted: completeness of the hook's own edge lists (yarel/src/object.rs under cfg verif_hooks); generators reach the sole-edge kinds listed in evidence; ASan red-zone limits", ref="DESIGN.md §4 C01"),
 "C03": dict(technique="runtime monitoring: oracle on every compile call (panic capture, error-shape check, recorded-error counter hook, structural decode of produced chunks) over prefix/mutation/random-token/nesting workloads",
             text="Accept / reject of every program of the limit families is compared with the model (beyond a stated limit must be rejected). Every char-boundary prefix of every corpus script, hundreds of thousands of token/char mutants, random token strings and nesting bombs are compiled on the real compiler; each call is checked for panic, hang, Err without located message, Ok after a recorded error. Exploration over the generated inputs.",
             note="bounds: nesting <= 500, interpolation depth <= 9, inputs <= 64 KiB; hang = batch watchdog + isolated confirmation", ref="DESIGN.md §4 C03"),
 "C16": dict(technique="runtime monitoring: allocation/sweep event stream (hook) replayed against a shadow heap account at every allocation; iteration-doubling and drop-to-empty heap censuses",
             text="Bodies whose fibers, once finished, are unreachable for the program also run with no iteration at all: kinds of object the program cannot reach after the loop must be as rare as after none (UnreachableRetained). Churn programs with bounded live sets over every allocation kind (incl. finished fibers that received their predecessor) run under the stock threshold pacing on an optimised build; every allocation event is checked against the pacing rule as the property words it, every sweep against conservation and the 2x threshold rule; running 2n instead of n iterations must leave the same census; dropping the interpreter must empty the heap.",
             note="byte sizes are yarel's own size_of accounting, as in the property; programs are generated loop programs, not arbitrary ones", ref="DESIGN.md §4 C16"),
}
PENDING = {}
ALL = ["C%02d" % i for i in range(1, 20)]

def main():
    import sys
    sys.path.insert(0, "/verif")
    extra = {}
    try:
        from tools import manifest_extra
        extra = manifest_extra.CHECKS
    except Exception:
        pass
    checks = dict(CHECKS); checks.update(extra)
    commits = subprocess.run("git -C /repo log --format=%h --grep='^verif_hooks' ", shell=True, stdout=subprocess.PIPE).stdout.decode().split()
    # fix 5b9e635 (per-fiber exception flag) also changes one line of guarded hook code: the state probe reads the flag where it now lives
    commits.append("5b9e635")
    # fix 77a92fa (pending return per call frame) moves one edge of the guarded heap-audit list along with the field it describes
    commits.append("77a92fa")
    m = {
        "version": 1,
        "setup_cmd": "./vf build --all",
        "hooks": {"guard": "cargo feature verif_hooks of crate yarel (off by default)",
                  "enable": "the runner crate /verif/harness is built with its feature `hooks`, which enables yarel/verif_hooks (./vf build hook hookfast)",
                  "baseline_off_cmd": BASELINE, "source_commits": commits, "add_only": True},
        "engines": [{"name": "vf", "path": "/verif/vf", "serves_properties": sorted(checks),
                     "kind_free_text": "runtime monitoring: Rust runner (harness/, built against /repo/yarel) driving the real library under hooks/sanitizers + Python drivers, generators, reference model and offline checkers (vfpy/)"}],
        "checks": [],
        "notes": "Every check: ./vf check <id> --tier quick|thorough; exit 0 held, 1 + VIOLATION line, 2 + INCONCLUSIVE line. Known findings: KNOWN_FINDINGS.txt.",
        "not_applicable": [],
    }
    for pid in sorted(checks):
        c = checks[pid]
        m["checks"].append({
            "property_id": pid, "quick_cmd": "./vf check %s --tier quick" % pid,
            "thorough_cmd": "./vf check %s --tier thorough" % pid,
            "evidence_file": "/verif/evidence/%s.json" % pid, "replay_cmd_template": "./vf replay {path}",
            "engine": "vf", "level_claimed": {"category": "exploration", "text": c["text"], "design_ref": c["ref"]},
            "level_note": c["note"], "technique": c["technique"]})
    for pid in ALL:
        if pid not in checks:
            m["not_applicable"].append({"property_id": pid, "reason": "check not built yet in this round (planned, see DESIGN.md §4); not claimed"})
    json.dump(m, open("/verif/MANIFEST.json", "w"), indent=1)
    print("manifest: %d checks, %d not applicable" % (len(m["checks"]), len(m["not_applicable"])))

main()
