#!/usr/bin/env python3
"""Line-based delta debugging of a model-vs-real replay: keeps the same class of disagreement."""
import json, sys, re
sys.path.insert(0, '/verif'); sys.setrecursionlimit(20000)
from vfpy import common
from vfpy.checks import modelcheck
from vfpy.common import mk_case

def disagreement(src, mods, cfg, natives=False):
    prog = {"name": "min", "steps": [("snip", src)], "mods": mods, "natives": natives}
    m = modelcheck._model_worker([prog])[0]
    if "view" not in m: return None
    v = m["view"][0]
    if v["res"] in ("unsupported", "budget", "compile_error"): return None
    o = {"gc": "always", "quarantine": 1}
    if natives: o["natives"] = 1
    res = common.run_batch(cfg, [mk_case("min", [("snip", src)], o, mods)], shards=1, timeout=60)[0]
    tag = "%s/%s|" % (v["res"], v.get("kind"))
    if "abort" in res: return tag + "abort"
    if res.get("events"): return tag + res["events"][0]["sig"]
    pr = modelcheck.compare_step(v, res["steps"][0])
    return tag + modelcheck.classify(pr) if pr else None

def main():
    d = json.load(open(sys.argv[1]))
    src = d["source"]; mods = [tuple(m) for m in d.get("modules", [])]; cfg = d.get("config", "hook")
    target = disagreement(src, mods, cfg, d.get("natives"))
    print("target:", target)
    if target is None:
        print("no disagreement any more"); return
    lines = src.split("\n")

    def units(ls):
        us = []
        for i, l in enumerate(ls):
            st = l.strip()
            if st.endswith("{") and not st.startswith("}"):
                depth = 0
                for j in range(i, len(ls)):
                    depth += ls[j].count("{") - ls[j].count("}")
                    if depth <= 0 and j > i:
                        us.append((i, j, "block"))
                        break
            elif st and not st.startswith("}") and not st.startswith("fn t(") and not st.startswith("fn show_"):
                us.append((i, i, "line"))
        return us

    changed = True
    while changed:
        changed = False
        for (a, b, kind) in sorted(units(lines), key=lambda u: -(u[1] - u[0])):
            cand = lines[:a] + lines[b + 1:]
            if cand and disagreement("\n".join(cand), mods, cfg, d.get("natives")) == target:
                lines = cand; changed = True; break
            head = lines[a].strip()
            if kind == "block" and b > a + 1 and lines[b].strip() == "}" and \
                    (head.startswith("if ") or head.startswith("while ") or head.startswith("for ") or head == "{"):
                cand = lines[:a] + lines[a + 1:b] + lines[b + 1:]
                if disagreement("\n".join(cand), mods, cfg, d.get("natives")) == target:
                    lines = cand; changed = True; break
    out = "\n".join(lines)
    print("---- minimal (%d lines) ----" % len(lines)); print(out)
    prog = {"name": "min", "steps": [("snip", out)], "mods": mods}
    m = modelcheck._model_worker([prog])[0]["view"][0]
    res = common.run_batch(cfg, [mk_case("min", [("snip", out)], {"gc": "always", "quarantine": 1}, mods)], shards=1)[0]
    print("model:", m); print("real: ", res["steps"], res.get("events"))
main()
