#!/bin/bash
# usage: tools/try_mutant_alt.sh <patch.diff> <Cxx> [tier]  -- like try_mutant.sh, but on a scratch worktree of /repo
# (VERIF_REPO), so that /repo itself stays untouched and other runs can go on; build output goes to build/alt-*/
set -u
patch="$1"; prop="$2"; tier="${3:-quick}"
WT=${TRY_WT:-/tmp/wt/try}
if [ ! -d "$WT" ]; then git -C /repo worktree add -q --detach "$WT" HEAD && cp /repo/Cargo.lock "$WT/"; fi
cd "$WT" || exit 9
git reset -q --hard; git checkout -q --detach "$(git -C /repo rev-parse HEAD)"; git reset -q --hard
if git apply --check "$patch" 2>/dev/null; then git apply "$patch" || exit 9
elif patch -p1 -F3 --dry-run -s < "$patch" >/dev/null 2>&1; then patch -p1 -F3 -s < "$patch"; find . -name '*.orig' -not -path './target/*' -delete
else echo "PATCH DOES NOT APPLY: $patch"; exit 9; fi
cd /verif
VERIF_REPO="$WT" ./vf check "$prop" --tier "$tier" > /tmp/try_alt.$$.log 2>&1
rc=$?
grep -aE "VIOLATION|signature:|KNOWN-FINDING|INCONCLUSIVE|held on|FAILED" /tmp/try_alt.$$.log | head -${LINES_MAX:-12}
echo "exit=$rc"
rm -f /tmp/try_alt.$$.log
cd "$WT" && git reset -q --hard
exit $rc
