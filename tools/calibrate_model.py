#!/usr/bin/env python3
"""Calibrate the reference model against the expected-output headers of the repository's scripts."""
import sys, re, os
sys.path.insert(0, '/verif'); sys.setrecursionlimit(20000)
from vfpy import common
from vfpy.model.interp import Interp

def lines_of(outs):
    lines = []
    for t in outs:
        lines.extend(t.split("\n") if t != "" else [])
    return lines

def match_line(exp, act):
    if exp == act: return True
    pat = re.escape(exp).replace(re.escape("[MEMADDR]"), r"(?:0x[0-9a-f]+|\[MEMADDR\])")
    return re.fullmatch(pat, act) is not None

def main():
    scripts, mods = common.scripts_corpus()
    modtab = dict(mods)
    only = sys.argv[1:]
    bad = 0; ok = 0; skipped = 0
    for name, src in scripts:
        if only and not any(o in name for o in only): continue
        exp = common.expected_of(src)
        ip = Interp(loader=lambda p: modtab.get(p))
        r = ip.interpret(src)
        act = lines_of(ip.out)
        if r[0] == "error":
            act += r[2]
        elif r[0] == "compile_error":
            if exp and all(l.startswith("[module") and "] Error" in l for l in exp):
                # compare line number and message of the first error only
                m = re.match(r'\[module "main", line (\d+)\] Error(?: at (?:end|\'.*?\'))?: (.*)$', exp[0])
                if m and (r[2] is None or int(m.group(1)) == r[2]) and (r[1] is None or m.group(2) == r[1]):
                    ok += 1
                else:
                    bad += 1; print("COMPILE-MISMATCH", name, exp[0], r)
                continue
            act += ["<compile error: %s line %s>" % (r[1], r[2])]
        elif r[0] in ("unsupported", "budget"):
            skipped += 1; print("SKIP", name, r); continue
        if len(exp) == len(act) and all(match_line(e, a) for e, a in zip(exp, act)):
            ok += 1
        else:
            bad += 1
            print("MISMATCH", name)
            for e, a in zip(exp + ["<none>"] * 50, act + ["<none>"] * 50):
                if e == "<none>" and a == "<none>": break
                flag = "  " if match_line(e, a) else "!!"
                print("   %s exp=%r act=%r" % (flag, e, a))
    print("ok=%d bad=%d skipped=%d" % (ok, bad, skipped))
main()
