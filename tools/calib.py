#!/usr/bin/env python3
"""Calibrate any program list on the unchanged tree (model vs real, hook build): prints every disagreement.
usage: calib.py 'python expression yielding a list of program dicts' ; names available: common, rng, and every vfpy.gen module"""
import json, os, sys, collections, importlib, pkgutil
sys.path.insert(0, '/verif'); sys.setrecursionlimit(20000)
from vfpy import common
from vfpy.checks import modelcheck
import vfpy.gen as G

def main():
    env = {"common": common, "rng": common.Rng(int(os.environ.get("VERIF_SEED", "0")), "calib")}
    for m in pkgutil.iter_modules(G.__path__):
        env[m.name] = importlib.import_module("vfpy.gen." + m.name)
    plist = eval(sys.argv[1], env)
    common.build(["hook"], quiet=True)
    models = modelcheck.run_models(plist, chunk=4)
    cases = []; keep = []; stats = collections.Counter()
    for i, (p, m) in enumerate(zip(plist, models)):
        if "crash" in m:
            stats["model_crash"] += 1; print("MODEL CRASH", p["name"], m["crash"]); continue
        bad = [s for s in m["view"] if s.get("res") in ("unsupported", "budget")]
        if bad:
            stats["discarded_" + bad[0]["res"]] += 1; print("discarded", p["name"], bad[0].get("why")); continue
        stats["res_" + m["view"][-1].get("res", "?")] += 1
        cases.append(common.mk_case("m%d" % i, [tuple(s) for s in p["steps"]], {"gc": os.environ.get("GC", "always"), "quarantine": 1}, p.get("mods")))
        keep.append((p, m))
    results = common.run_batch("hook", cases, timeout=900)
    nbad = 0
    for (p, m), res in zip(keep, results):
        pr = None
        if "abort" in res: pr = "abort %s" % res["abort"]
        elif res.get("events"): pr = "events %s" % res["events"][:2]
        else:
            for ms, rs in zip(m["view"], res["steps"]):
                pr = modelcheck.compare_step(ms, rs)
                if pr: break
        if pr:
            nbad += 1
            if nbad <= int(os.environ.get("SHOW", "6")):
                print("=" * 100); print(p["name"], "::", pr[:600]); print(p["steps"][0][1][:int(os.environ.get("SRC", "1500"))])
                print("model out:", m["view"][0].get("out", [])[:40], m["view"][0].get("msgs"))
                print("real out: ", res.get("steps", [{}])[0].get("out", [])[:40], res.get("steps", [{}])[0].get("msgs"))
            else:
                print("BAD", p["name"], pr[:200])
    print(json.dumps(stats)); print("programs", len(plist), "compared", len(keep), "bad", nbad)
main()
