#!/bin/bash
# usage: tools/try_mutant.sh <patch.diff> <Cxx> [tier]  -- apply to /repo, run the check, undo
set -u
patch="$1"; prop="$2"; tier="${3:-quick}"
cd /repo || exit 9
if [ -n "$(git status --porcelain --untracked-files=no)" ]; then echo "/repo has uncommitted changes; refusing"; exit 9; fi
if git apply --check "$patch" 2>/dev/null; then
  git apply "$patch" || exit 9
elif patch -p1 -F3 --dry-run -s < "$patch" >/dev/null 2>&1; then
  patch -p1 -F3 -s < "$patch" || { git checkout -- .; exit 9; }
  find . -name '*.orig' -not -path './target/*' -delete
else
  echo "PATCH DOES NOT APPLY: $patch"; exit 9
fi
cd /verif
./vf check "$prop" --tier "$tier" > /tmp/try_mutant.$$.log 2>&1
rc=$?
grep -E "VIOLATION|signature:|KNOWN-FINDING|INCONCLUSIVE|held on|FAILED" /tmp/try_mutant.$$.log | head -${LINES_MAX:-12}
echo "exit=$rc"
rm -f /tmp/try_mutant.$$.log
cd /repo && git reset -q && git checkout -- . && git status --short | head -3
exit $rc
