#!/usr/bin/env python3
"""Run one program (file or inline text; --mod path=file-or-text) through the reference model and the real
interpreter (hook build, collect-always, audited) and print both views and the first difference."""
import json, os, sys
sys.path.insert(0, '/verif')
sys.setrecursionlimit(20000)
from vfpy import common
from vfpy.checks import modelcheck

def main():
    mods = []; steps = []; cfg = "hook"
    for a in sys.argv[1:]:
        if a.startswith("--mod="):
            p, f = a[6:].split("=", 1)
            mods.append((p, open(f).read() if os.path.exists(f) else f))
        elif a.startswith("--cfg="):
            cfg = a[6:]
        elif a == "RESET":
            steps.append(("reset",))
        elif os.path.exists(a):
            steps.append(("snip", open(a).read()))
        else:
            steps.append(("snip", a))
    common.build([cfg], quiet=True)
    prog = {"name": "try", "steps": steps, "mods": mods}
    model = modelcheck.run_models([prog])[0]
    opts = {"gc": "always", "quarantine": 1, "audit": 1} if cfg.startswith("hook") else {}
    res = common.run_batch(cfg, [common.mk_case("t", steps, opts, mods)], shards=1, timeout=120)[0]
    print("model:", json.dumps(model.get("view", model), indent=0)[:4000])
    print("real: ", json.dumps(res.get("steps", res), indent=0)[:4000])
    print("events:", res.get("events"), "abort:", res.get("abort"))
    if "view" in model and "steps" in res:
        for ms, rs in zip(model["view"], res["steps"]):
            pr = modelcheck.compare_step(ms, rs)
            print("DIFF:" if pr else "agree", pr or "")
main()
