#!/usr/bin/env python3
"""Create witness/<name>.json from a spec: runs it on the current tree (hook build) and records the
observed per-step outcome as the expectation -- to be reviewed by hand before committing.
usage: mk_witness.py name 'what failed' [--mod path=file]... step...   where step is a .yl file, 'RESET', or inline source"""
import json, os, sys
sys.path.insert(0, '/verif')
from vfpy import common

def main():
    name, what = sys.argv[1], sys.argv[2]
    mods = []; steps = []
    for a in sys.argv[3:]:
        if a.startswith("--mod="):
            p, f = a[6:].split("=", 1)
            mods.append((p, open(f).read() if os.path.exists(f) else f))
        elif a == "RESET":
            steps.append(["reset"])
        elif os.path.exists(a):
            steps.append(["snip", open(a).read()])
        else:
            steps.append(["snip", a])
    common.build(["hook"])
    case = common.mk_case("w", [tuple(s) for s in steps], {"gc": "always", "quarantine": 1, "audit": 1}, mods)
    res = common.run_batch("hook", [case], shards=1)[0]
    expect = common.witness_view(res)
    out = {"name": name, "what": what, "steps": steps, "mods": mods, "expect": expect}
    json.dump(out, open("/verif/witness/%s.json" % name, "w"), indent=1)
    print(json.dumps(expect, indent=1))
    print("events:", res.get("events"))
main()
