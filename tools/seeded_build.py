#!/usr/bin/env python3
"""Assemble /verif/seeded/<id>/ from the confirmed sub-agent changes under /tmp/mutout."""
import json, os, shutil, glob, subprocess, re, sys
ROOT = sys.argv[1] if len(sys.argv) > 1 else "/tmp/mutout"      # where the sub-agents delivered
SUFFIX = sys.argv[2] if len(sys.argv) > 2 else ""               # round marker appended to the id ("2" -> C01-A2)
NOTES = json.load(open(sys.argv[3])) if len(sys.argv) > 3 else {}  # id -> {"first_run":..., "strengthening":...}
DROPPED_BY_ROUND = {"3": {"C10/A": "neutralised by fix 3eb81dd (an uncaught error closes the captured variables of the frames it discards): the only way the module-level fiber could be dropped with an open captured variable was an uncaught error; the demonstration prints 42 / 43 with the change applied"}}
DROPPED = {
 "C01/B": "neutralised by fix d72963c (bound-method blacken): with blacken no longer re-greying, a single trace pass suffices; was caught by C01 (ScheduleDependentAbort, Asan heap-use-after-free) before that fix",
 "C02/B": "neutralised by fix 012ace0 (open upvalues keep their fiber alive): the unclosed upvalue of a finished fiber now stays valid",
 "C09/A": "same change as C02/B, neutralised by fix 012ace0",
 "C15/B": "neutralised by fix 36d5794 (exception-in-flight flag cleared at the start of every run)",
 "C17/B": "the change (record the throw site for VM-raised errors) became part of fix 9ece0b8 once the stale-site handling of fix ba03859 made it safe; the patch no longer builds",
}
MANUAL = {"C15/A": "demo.rs run as a cargo example in a scratch worktree: expected.txt on the unchanged tree; with the change the retried import fails with 'Circular dependency'",
          "C16/A": "run.sh (release CLI with debug_trace_gc + gc_report.awk) in a scratch worktree: pacing bound OK without, 'VIOLATED 7 times' with the change",
          "C16/B": "run.sh in a scratch worktree: heap after last collection 11864 bytes without, 254120 bytes (and growing with rounds) with the change"}
head = subprocess.run("git -C /repo rev-parse --short HEAD", shell=True, stdout=subprocess.PIPE).stdout.decode().strip()
os.makedirs("/verif/seeded", exist_ok=True)
rows = []
for d in sorted(glob.glob(ROOT + "/C*/[AB]")):
    mid = os.path.relpath(d, ROOT)
    sid = mid.replace("/", "-") + SUFFIX
    conf = json.load(open(d + "/confirm.json")) if os.path.exists(d + "/confirm.json") else {}
    notes = open(d + "/notes.md").read() if os.path.exists(d + "/notes.md") else ""
    if mid in DROPPED and not SUFFIX:
        rows.append((sid, "dropped", DROPPED[mid]))
        continue
    if mid in DROPPED_BY_ROUND.get(SUFFIX, {}):
        rows.append((sid, "dropped", DROPPED_BY_ROUND[SUFFIX][mid]))
        continue
    ok = conf.get("applies") and conf.get("builds") and conf.get("tests_ok") and (conf.get("demo_ok") or (mid in MANUAL and not SUFFIX))
    if not ok:
        rows.append((sid, "unconfirmed", str({k: conf.get(k) for k in ("applies", "builds", "tests_ok", "demo_ok")})))
        continue
    out = "/verif/seeded/" + sid
    os.makedirs(out, exist_ok=True)
    src_patch = d + "/patch.manual.diff" if os.path.exists(d + "/patch.manual.diff") else d + "/patch.rebased.diff" if os.path.exists(d + "/patch.rebased.diff") and os.path.getsize(d + "/patch.rebased.diff") > 0 else d + "/patch.diff"
    shutil.copy(src_patch, out + "/patch.diff")
    for fn in os.listdir(d):
        if fn.endswith(".yl") or fn.endswith(".txt") or fn.endswith(".py") or fn.startswith("demo") or fn.startswith("expected") or fn in ("notes.md", "run.sh", "gc_report.awk") or fn.startswith("control") or fn == "find_collision.rs":
            if os.path.isdir(d + "/" + fn):
                shutil.copytree(d + "/" + fn, out + "/" + fn, dirs_exist_ok=True)
            else:
                shutil.copy(d + "/" + fn, out + "/" + fn)
    needs = ""
    m = re.search(r"(?is)(what (?:it|exactly)? ?(?:is )?need[^\n]*\n)(.*?)(\n#|\Z)", notes)
    if m:
        needs = " ".join(m.group(2).split())[:700]
    meta = {"id": sid, "property": mid.split("/")[0], "source": "sub-agent given only the property text and a scratch worktree",
            "breaks": " ".join(notes.split("\n\n")[0].split())[:300], "needs_to_manifest": needs,
            "confirmed_at_repo_head": conf.get("head") or head,
            "confirmation": {"patch_applies": True, "builds_dev_and_release": True, "baseline_546_tests_pass": True,
                             "demo": MANUAL.get(mid if not SUFFIX else "", "demo.rs as an integration test (cargo test -p yarel --test verif_demo) in a scratch worktree: passes without the change, fails with it (tools/confirm_mutants.py)" if os.path.exists(d + "/demo.rs") else "demo.yl vs expected.txt through yarel-cli in a scratch worktree: matches without the change, differs with it (tools/confirm_mutants.py)"),
                             "demo_detail": conf.get("demo")}}
    meta.update(NOTES.get(mid, {}))
    json.dump(meta, open(out + "/meta.json", "w"), indent=1)
    rows.append((sid, "kept", ""))
old = []
if os.path.exists("/verif/seeded/index.json"):
    old = [tuple(r) for r in json.load(open("/verif/seeded/index.json"))]
mine = {r[0] for r in rows}
rows = sorted([r for r in old if r[0] not in mine] + rows)
json.dump(rows, open("/verif/seeded/index.json", "w"), indent=1)
for r in rows: print(*r)
