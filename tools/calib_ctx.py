#!/usr/bin/env python3
"""Calibrate the context-nesting generator on the unchanged tree: N programs per profile, nested, model vs real.
usage: calib_ctx.py [n_per_profile] [seed]"""
import json, os, sys, collections
sys.path.insert(0, '/verif'); sys.setrecursionlimit(20000)
from vfpy import common
from vfpy.checks import modelcheck
from vfpy.gen import profiles, progs, feat_ctx

def main():
    n = int(sys.argv[1]) if len(sys.argv) > 1 else 20
    seed = int(sys.argv[2]) if len(sys.argv) > 2 else 0
    rng = common.Rng(seed, "calibctx")
    common.build(["hook"], quiet=True)
    plist = []
    for name, prof in profiles.all_profiles():
        for i in range(n):
            r = rng.fork("%s/%d" % (name, i))
            src, mods = progs.generate(r.fork("g"), prof)
            s2, m2, names = feat_ctx.nest(src, mods, r.fork("n"))
            plist.append({"name": "%s/%d[%s]" % (name, i, ">".join(names)), "steps": [("snip", s2)], "mods": m2, "ctx": names})
    models = modelcheck.run_models(plist)
    cases = []; keep = []
    stats = collections.Counter()
    for i, (p, m) in enumerate(zip(plist, models)):
        if "crash" in m:
            stats["model_crash"] += 1; print("MODEL CRASH", p["name"], m["crash"]); continue
        if any(s.get("res") in ("unsupported", "budget") for s in m["view"]):
            stats["discarded"] += 1; continue
        stats["res_" + m["view"][0]["res"]] += 1
        cases.append(common.mk_case("m%d" % i, [tuple(s) for s in p["steps"]], {"gc": "always", "quarantine": 1}, p["mods"]))
        keep.append((p, m))
    results = common.run_batch("hook", cases, timeout=600)
    bad = 0
    for (p, m), res in zip(keep, results):
        pr = None
        if "abort" in res: pr = "abort %s" % res["abort"]
        elif res.get("events"): pr = "events %s" % res["events"][:2]
        else:
            pr = modelcheck.compare_step(m["view"][0], res["steps"][0])
        if pr:
            bad += 1
            stats["bad_ctx_" + ">".join(p["ctx"])] += 1
            if bad <= int(os.environ.get("SHOW", "6")):
                print("=" * 100); print(p["name"], "::", pr); print(p["steps"][0][1][:int(os.environ.get("SRC", "2500"))])
                for mp, ms in p["mods"]: print("--- module", mp); print(ms[:1500])
                print("model out:", m["view"][0]["out"][:30], m["view"][0].get("msgs"))
                print("real out: ", res.get("steps", [{}])[0].get("out", [])[:30], res.get("steps", [{}])[0].get("msgs"))
    print(json.dumps(stats, indent=1)); print("programs", len(plist), "compared", len(keep), "bad", bad)
main()
