#!/bin/bash
# run every quick check at several seeds; print one line per run
./vf build --all > /dev/null 2>&1
for s in "$@"; do
  for i in 01 02 03 04 05 06 07 08 09 10 11 12 13 14 15 16 17 18 19; do
    out=$(VERIF_SEED=$s ./vf check C$i --tier quick 2>&1); rc=$?
    echo "seed=$s C$i exit=$rc $(echo "$out" | grep -E 'VIOLATION|signature|INCONCLUSIVE' | head -4 | tr '\n' ' ')"
  done
done
